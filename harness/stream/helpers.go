package stream

import (
	"io"
	"reflect"
	"runtime"
	"strings"

	"github.com/ysugimoto/falco/v2/ast"
	"github.com/ysugimoto/falco/v2/plugin"
)

// innermostFalcoFrame names the innermost function of falco on the stack of a
// panic being recovered (package.Func, no line numbers so that keys survive
// unrelated edits).
// spinFrame names the loop that does not terminate: the innermost parser
// frame when the parser is on the stack (the lexer below it merely serves the
// calls), otherwise the innermost falco frame.
func spinFrame() string {
	pcs := make([]uintptr, 64)
	n := runtime.Callers(2, pcs)
	frames := runtime.CallersFrames(pcs[:n])
	first := ""
	for {
		f, more := frames.Next()
		if strings.Contains(f.Function, "ysugimoto/falco/v2/") {
			fn := f.Function[strings.Index(f.Function, "falco/v2/")+len("falco/v2/"):]
			if first == "" {
				first = fn
			}
			if strings.HasPrefix(fn, "parser.") {
				return fn
			}
		}
		if !more {
			break
		}
	}
	if first == "" {
		return "?"
	}
	return first
}

func innermostFalcoFrame() string {
	pcs := make([]uintptr, 64)
	n := runtime.Callers(2, pcs)
	frames := runtime.CallersFrames(pcs[:n])
	for {
		f, more := frames.Next()
		if strings.Contains(f.Function, "ysugimoto/falco/v2/") {
			fn := f.Function[strings.Index(f.Function, "falco/v2/")+len("falco/v2/"):]
			return fn
		}
		if !more {
			break
		}
	}
	return "?"
}

var stmtIface = reflect.TypeOf((*ast.Statement)(nil)).Elem()

// childStatements returns the statements directly nested in s.
func childStatements(s ast.Statement) []ast.Statement {
	var out []ast.Statement
	var walk func(v reflect.Value, top bool)
	walk = func(v reflect.Value, top bool) {
		for v.IsValid() && (v.Kind() == reflect.Interface || v.Kind() == reflect.Pointer) {
			if v.IsNil() {
				return
			}
			if !top && v.Kind() == reflect.Pointer && v.Type().Implements(stmtIface) {
				if _, isMeta := v.Interface().(*ast.Meta); !isMeta {
					out = append(out, v.Interface().(ast.Statement))
					return
				}
			}
			v = v.Elem()
		}
		if !v.IsValid() {
			return
		}
		switch v.Kind() {
		case reflect.Struct:
			for i := 0; i < v.NumField(); i++ {
				if v.Type().Field(i).Name == "Meta" {
					continue
				}
				walk(v.Field(i), false)
			}
		case reflect.Slice:
			for i := 0; i < v.Len(); i++ {
				walk(v.Index(i), false)
			}
		}
	}
	walk(reflect.ValueOf(s), true)
	return out
}

// walkStrings visits the Value of every *ast.String in s.
func walkStrings(s any, f func(string)) {
	var walk func(v reflect.Value)
	walk = func(v reflect.Value) {
		for v.IsValid() && (v.Kind() == reflect.Interface || v.Kind() == reflect.Pointer) {
			if v.IsNil() {
				return
			}
			if str, ok := v.Interface().(*ast.String); ok {
				f(str.Value)
				return
			}
			v = v.Elem()
		}
		if !v.IsValid() {
			return
		}
		switch v.Kind() {
		case reflect.Struct:
			for i := 0; i < v.NumField(); i++ {
				if v.Type().Field(i).Name == "Meta" {
					continue
				}
				walk(v.Field(i))
			}
		case reflect.Slice:
			for i := 0; i < v.Len(); i++ {
				walk(v.Index(i))
			}
		}
	}
	walk(reflect.ValueOf(s))
}

func rlr[T plugin.LintStatement](r io.Reader) (ast.Statement, error) {
	req, err := plugin.ReadLinterRequest[T](r)
	if err != nil {
		return nil, err
	}
	return any(req.Statement).(ast.Statement), nil
}

// readLinterRequest calls the real generic plugin.ReadLinterRequest for the
// statement kind the plugin expects.
func readLinterRequest(s ast.Statement, r io.Reader) (ast.Statement, error) {
	switch s.(type) {
	case *ast.AclDeclaration:
		return rlr[*ast.AclDeclaration](r)
	case *ast.BackendDeclaration:
		return rlr[*ast.BackendDeclaration](r)
	case *ast.DirectorDeclaration:
		return rlr[*ast.DirectorDeclaration](r)
	case *ast.TableDeclaration:
		return rlr[*ast.TableDeclaration](r)
	case *ast.SubroutineDeclaration:
		return rlr[*ast.SubroutineDeclaration](r)
	case *ast.PenaltyboxDeclaration:
		return rlr[*ast.PenaltyboxDeclaration](r)
	case *ast.RatecounterDeclaration:
		return rlr[*ast.RatecounterDeclaration](r)
	case *ast.BlockStatement:
		return rlr[*ast.BlockStatement](r)
	case *ast.ImportStatement:
		return rlr[*ast.ImportStatement](r)
	case *ast.IncludeStatement:
		return rlr[*ast.IncludeStatement](r)
	case *ast.DeclareStatement:
		return rlr[*ast.DeclareStatement](r)
	case *ast.SetStatement:
		return rlr[*ast.SetStatement](r)
	case *ast.UnsetStatement:
		return rlr[*ast.UnsetStatement](r)
	case *ast.RemoveStatement:
		return rlr[*ast.RemoveStatement](r)
	case *ast.IfStatement:
		return rlr[*ast.IfStatement](r)
	case *ast.SwitchStatement:
		return rlr[*ast.SwitchStatement](r)
	case *ast.RestartStatement:
		return rlr[*ast.RestartStatement](r)
	case *ast.EsiStatement:
		return rlr[*ast.EsiStatement](r)
	case *ast.AddStatement:
		return rlr[*ast.AddStatement](r)
	case *ast.CallStatement:
		return rlr[*ast.CallStatement](r)
	case *ast.ErrorStatement:
		return rlr[*ast.ErrorStatement](r)
	case *ast.LogStatement:
		return rlr[*ast.LogStatement](r)
	case *ast.ReturnStatement:
		return rlr[*ast.ReturnStatement](r)
	case *ast.SyntheticStatement:
		return rlr[*ast.SyntheticStatement](r)
	case *ast.SyntheticBase64Statement:
		return rlr[*ast.SyntheticBase64Statement](r)
	case *ast.GotoStatement:
		return rlr[*ast.GotoStatement](r)
	case *ast.GotoDestinationStatement:
		return rlr[*ast.GotoDestinationStatement](r)
	case *ast.FunctionCallStatement:
		return rlr[*ast.FunctionCallStatement](r)
	}
	return rlr[*ast.BlockStatement](r)
}
