package stream

import (
	"os"
	"strconv"

	"falcosim/sim/worker"
)

func scale(n int) int {
	if s := os.Getenv("FALCOSIM_SCALE"); s != "" {
		if f, err := strconv.ParseFloat(s, 64); err == nil && f > 0 {
			n = int(float64(n) * f)
			if n < 1 {
				n = 1
			}
		}
	}
	return n
}

func Engine() *worker.Engine {
	return &worker.Engine{
		Name:       "stream",
		Properties: []string{"C01", "C19"},
		NumEnum: func(p, tier string) int {
			switch p {
			case "C19":
				return c19NumEnum(tier)
			case "C01":
				return c01NumEnum(tier)
			}
			return 0
		},
		EnumPrefix: func(p, tier string, i int) []uint64 {
			switch p {
			case "C19":
				return c19EnumPrefix(tier, i)
			case "C01":
				return c01EnumPrefix(tier, i)
			}
			return nil
		},
		NumSampled: func(p, tier string) int {
			switch p + "/" + tier {
			case "C19/quick":
				return scale(1200000)
			case "C19/thorough":
				return scale(50000000)
			case "C01/quick":
				return scale(500000)
			case "C01/thorough":
				return scale(20000000)
			}
			return 1000
		},
		Run: func(c *worker.Ctx) {
			switch c.Property {
			case "C19":
				runC19(c)
			case "C01":
				runC01(c)
			}
		},
	}
}
