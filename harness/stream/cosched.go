package stream

import (
	"fmt"

	"falcosim/sim/simhook"
	"falcosim/sim/tape"
)

// ---------------------------------------------------------------------------
// Interleaved users of the lexer, parser and codec.
//
// Several independent tasks (each with its own Lexer / Parser / Encoder /
// Decoder and its own input) run as coroutines: exactly one runs at a time,
// and at every preemption point the overlay put into the loops of lexer/…,
// parser/… and ast/codec/… (simhook.Loop) the tape decides who continues.
// sync.Pool is simsync.Pool in those packages, so what a pool hands out is a
// function of the schedule. Oracle: every task ends with exactly what it
// produces when it runs alone.
// ---------------------------------------------------------------------------

type coTask struct {
	name   string
	fn     func()
	resume chan struct{}
	done   bool
	panicV any
	stack  string
}

type coSched struct {
	t        *tape.Tape
	tasks    []*coTask
	back     chan struct{}
	cur      *coTask
	Switches int
	maxSteps int
	steps    int
}

func (s *coSched) Yield(string) {
	t := s.cur
	if t == nil {
		return
	}
	s.back <- struct{}{}
	<-t.resume
}
func (s *coSched) Register(string) func() { return func() {} }
func (s *coSched) Lock(any, bool)         {}
func (s *coSched) Unlock(any, bool)       {}

// runInterleaved runs the tasks to completion under tape-chosen preemption;
// every-th loop iteration is a preemption point.
func runInterleaved(t *tape.Tape, every int, tasks []*coTask) *coSched {
	s := &coSched{t: t, tasks: tasks, back: make(chan struct{}), maxSteps: 4000}
	for _, tk := range tasks {
		tk := tk
		tk.resume = make(chan struct{})
		go func() {
			<-tk.resume
			defer func() {
				if v := recover(); v != nil {
					tk.panicV, tk.stack = v, innermostFalcoFrame()
				}
				tk.done = true
				s.back <- struct{}{}
			}()
			tk.fn()
		}()
	}
	simhook.Install(s)
	simhook.SetLoopEvery(every)
	defer func() {
		simhook.SetLoopEvery(0)
		simhook.Uninstall()
	}()
	var last *coTask
	for {
		var live []*coTask
		for _, tk := range tasks {
			if !tk.done {
				live = append(live, tk)
			}
		}
		if len(live) == 0 {
			break
		}
		pick := live[0]
		if s.steps < s.maxSteps {
			pick = live[t.Draw(len(live))]
		} else {
			simhook.SetLoopEvery(0) // long enough: let everyone finish, one after the other
		}
		s.steps++
		if last != nil && pick != last {
			s.Switches++
		}
		last = pick
		s.cur = pick
		pick.resume <- struct{}{}
		<-s.back
	}
	s.cur = nil
	return s
}

func (s *coSched) String() string {
	return fmt.Sprintf("%d tasks, %d scheduling decisions, %d switches", len(s.tasks), s.steps, s.Switches)
}
