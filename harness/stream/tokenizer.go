package stream

import (
	"errors"

	"github.com/ysugimoto/falco/v2/ast"
	"github.com/ysugimoto/falco/v2/lexer"
	"github.com/ysugimoto/falco/v2/parser"
	"github.com/ysugimoto/falco/v2/token"
)

// errTokenBudget is the sentinel panic raised by the counting tokenizer when
// the parser asks for more tokens than any terminating parse of n bytes can
// need (64·(n+64)): a skip or read loop without an EOF exit.
var errTokenBudget = errors.New("stream: tokenizer call budget exceeded (parser spins)")

// countingTokenizer is falco's own parser.Tokenizer seam: it forwards to the
// real lexer, counts calls and records the tokens handed out.
type countingTokenizer struct {
	l      *lexer.Lexer
	calls  int
	budget int
	tokens []token.Token
	record bool
}

func newCounting(l *lexer.Lexer, nbytes int, record bool) *countingTokenizer {
	return &countingTokenizer{l: l, budget: 64 * (nbytes + 64), record: record}
}

func (c *countingTokenizer) tick() {
	c.calls++
	if c.calls > c.budget {
		panic(errTokenBudget)
	}
}

func (c *countingTokenizer) NextToken() token.Token {
	c.tick()
	t := c.l.NextToken()
	if c.record {
		c.tokens = append(c.tokens, t)
	}
	return t
}

func (c *countingTokenizer) PeekToken() token.Token {
	c.tick()
	return c.l.PeekToken()
}

func (c *countingTokenizer) RegisterCustomTokens(m map[string]token.TokenType) {
	c.l.RegisterCustomTokens(m)
}

// safeParse parses src with the token budget; a spin or panic is reported as
// an error (used where the parse is only a means to obtain statements).
func safeParse(src string, snippet bool) (stmts []ast.Statement, err error) {
	defer func() {
		if v := recover(); v != nil {
			err = errors.New("parser panicked or spun")
		}
	}()
	tk := newCounting(lexer.NewFromString(src), len(src), false)
	p := parser.New(tk)
	if snippet {
		return p.ParseSnippetVCL()
	}
	v, err := p.ParseVCL()
	if err != nil {
		return nil, err
	}
	return v.Statements, nil
}
