package stream

import "falcosim/sim/worker"

func c01NumEnum(tier string) int                  { return 0 }
func c01EnumPrefix(tier string, i int) []uint64   { return nil }
func runC01(c *worker.Ctx)                        {}
