package stream

import (
	"fmt"
	"reflect"
	"sort"
	"strings"
	"sync"
	"unicode/utf8"

	"falcosim/sim/astcmp"
	"falcosim/sim/simio"
	"falcosim/sim/simsync"
	"falcosim/sim/vclgen"
	"falcosim/sim/worker"

	"github.com/pkg/errors"
	"github.com/ysugimoto/falco/v2/ast"
	"github.com/ysugimoto/falco/v2/lexer"
	"github.com/ysugimoto/falco/v2/parser"
	"github.com/ysugimoto/falco/v2/tester/syntax"
	"github.com/ysugimoto/falco/v2/token"
)

// ---------------------------------------------------------------------------
// C01 — lexing and parsing are total, and diagnostics are located in the input
//
// System under simulation: the real lexer reading through its bufio.Reader
// from a simio stream; the real parser on top, through falco's own
// parser.Tokenizer seam (a counting wrapper that forwards to the real lexer).
// The simulator decides how the source is delivered (chunking, zero reads),
// where it ends (clean EOF, cut, error at any offset) and how it is corrupted.
// ---------------------------------------------------------------------------

type entry struct {
	name   string
	run    func(p *parser.Parser) (any, error)
	custom bool // with the test runner's custom parsers (describe blocks and hooks), as `falco test` parses
}

var entries = []entry{
	{"ParseVCL", func(p *parser.Parser) (any, error) { return p.ParseVCL() }, false},
	{"ParseSnippetVCL", func(p *parser.Parser) (any, error) { return p.ParseSnippetVCL() }, false},
	{"ParseVCLOrSnippet", func(p *parser.Parser) (any, error) { return p.ParseVCLOrSnippet() }, false},
	{"ParseVCL+test-syntax", func(p *parser.Parser) (any, error) { return p.ParseVCL() }, true},
}

type passOutcome struct {
	tree     any
	err      error
	panicV   any
	stack    string
	spin     string // "" | "tokens" | "reads"
	calls    int
	shorts   int
	rendered string
}

func (o passOutcome) class() string {
	switch {
	case o.panicV != nil:
		return "panic"
	case o.spin != "":
		return "spin"
	case o.err != nil:
		return "error"
	}
	return "tree"
}

func runEntry(e entry, data []byte, plan simio.Plan, c *worker.Ctx) (out passOutcome) {
	r := simio.NewReader(data, plan, c.T)
	r.SpinLimit = 1000
	var tk *countingTokenizer
	defer func() {
		out.shorts = r.ShortReads
		if tk != nil {
			out.calls = tk.calls
		}
		if v := recover(); v != nil {
			out.stack = innermostFalcoFrame()
			switch v {
			case errTokenBudget:
				out.spin = "tokens"
				out.stack = spinFrame()
			case simio.SpinSentinel:
				out.spin = "reads"
				out.stack = spinFrame()
			default:
				out.panicV = v
			}
		}
	}()
	tk = newCounting(lexer.New(r), len(r.Delivered()), false)
	var p *parser.Parser
	if e.custom {
		p = parser.New(tk, parser.WithCustomParser(syntax.CustomParsers()...))
	} else {
		p = parser.New(tk)
	}
	out.tree, out.err = e.run(p)
	if out.err == nil && !e.custom && !skipRender {
		// (a describe block prints its hooks in the order of a Go map: its text
		// is not a function of the tree, so it is not used as one)
		out.rendered = renderTree(out.tree)
	}
	return
}

// skipRender: set by the deep-nesting mode, where printing a tree of 10⁵ levels
// is quadratic in its depth and is not what is being judged.
var skipRender bool

func renderTree(t any) (s string) {
	defer func() {
		if recover() != nil {
			s = "<String() panicked>"
		}
	}()
	switch v := t.(type) {
	case *ast.VCL:
		if v == nil {
			return "<nil>"
		}
		return v.String()
	case []ast.Statement:
		var b strings.Builder
		for _, st := range v {
			b.WriteString(st.String())
		}
		return b.String()
	}
	return ""
}

type lexOutcome struct {
	tokens []token.Token
	panicV any
	stack  string
	spin   string
	shorts int
}

func runLex(data []byte, plan simio.Plan, c *worker.Ctx) (out lexOutcome) {
	r := simio.NewReader(data, plan, c.T)
	r.SpinLimit = 1000
	defer func() {
		out.shorts = r.ShortReads
		if v := recover(); v != nil {
			out.stack = innermostFalcoFrame()
			switch v {
			case simio.SpinSentinel:
				out.spin = "reads"
			default:
				out.panicV = v
			}
		}
	}()
	l := lexer.New(r)
	budget := 64 * (len(r.Delivered()) + 64)
	for i := 0; ; i++ {
		if i > budget {
			out.spin = "tokens"
			out.stack = "lexer.(*Lexer).NextToken"
			return
		}
		t := l.NextToken()
		out.tokens = append(out.tokens, t)
		if t.Type == token.EOF {
			return
		}
	}
}

// textAt returns the source text starting at a 1-based (line, rune column),
// and whether the position lies inside the input.
type located struct {
	lines []string
}

func newLocated(src []byte) *located { return &located{lines: strings.Split(string(src), "\n")} }

func (l *located) at(line, col int) (string, bool) {
	if line < 1 || line > len(l.lines) || col < 1 {
		return "", false
	}
	ln := l.lines[line-1]
	if line < len(l.lines) {
		ln += "\n" // the terminator is a character of its line (the lexer counts it)
	}
	// rune column → byte offset (invalid bytes count as one rune each, as in the lexer)
	off := 0
	for i := 1; i < col; i++ {
		if off >= len(ln) {
			return "", false
		}
		_, sz := utf8.DecodeRuneInString(ln[off:])
		off += sz
	}
	// off == len(ln) is "one past the last character of the line"; it lies
	// inside the input for the last line (end of input) and, in the lexer's
	// coordinates, for a final line that ends with a newline.
	if off == len(ln) && line < len(l.lines) && !(line == len(l.lines)-1 && l.lines[len(l.lines)-1] == "") {
		return "", false
	}
	return ln[off:], true
}

// checkToken is oracle O3. The per-kind convention was measured on the
// fault-free corpus (every .vcl in the repository and generated programs):
// punctuation, operators, identifiers, keywords and numbers start with their
// literal; strings at their opening quote; long strings at `{`; comments at
// their marker; LF at the newline; CLOSE_LONG_STRING at the closing `}`.
func checkToken(t token.Token, loc *located, atEOFOK bool) (what string) {
	if t.Type == "" {
		return "untyped"
	}
	if t.Type == token.EOF {
		if t.Line < 1 || t.Line > len(loc.lines)+1 {
			return "eof-line-out-of-range"
		}
		return ""
	}
	at, ok := loc.at(t.Line, t.Position)
	if !ok {
		return "out-of-range"
	}
	exp := t.Literal
	switch t.Type {
	case token.STRING:
		exp = `"`
	case token.OPEN_LONG_STRING:
		exp = "{"
	case token.COMMENT:
		if len(t.Literal) > 0 {
			exp = t.Literal[:1]
		}
	case token.LF:
		exp = "\n"
	case token.CLOSE_LONG_STRING:
		// an unterminated long string is closed by a synthetic token at the
		// end of the input, which designates nothing
		if at == "" || strings.HasPrefix(at, "}") {
			return ""
		}
		if atEOFOK {
			return ""
		}
		return "not-at-text"
	case token.ILLEGAL:
		// designates the offending character
		if at != "" {
			return ""
		}
		return "not-at-text"
	}
	if !strings.HasPrefix(at, exp) {
		return "not-at-text"
	}
	return ""
}

// checkErrorToken is oracle O4's location rule. The parser re-anchors the
// token of compound expressions at the start of their left operand, so an
// error token designates text when it lies inside the input and either shows
// its own literal there or sits at the start of a token the lexer produced
// (or at the end of input).
func checkErrorToken(t token.Token, loc *located, toks []token.Token) string {
	if t.Type == token.EOF {
		// an error "at end of input" must point at the end of the input (the
		// position of the first EOF token the lexer hands out), not past it
		if _, ok := loc.at(t.Line, t.Position); !ok {
			return "eof-out-of-range"
		}
		return ""
	}
	w := checkToken(t, loc, true)
	if w != "not-at-text" {
		return w
	}
	at, _ := loc.at(t.Line, t.Position)
	if at == "" {
		return ""
	}
	for _, x := range toks {
		if x.Line == t.Line && x.Position == t.Position && x.Type != "" {
			return ""
		}
	}
	return w
}

type c01Source struct {
	id   string
	text []byte
}

func c01DrawSource(c *worker.Ctx) c01Source {
	if c.T.Bool(1, 40) {
		cs := Corpus()
		var pick []source
		for _, s := range cs {
			if validPlain[s.Name] || strings.HasPrefix(s.Name, "hand/bad-escape") {
				pick = append(pick, s)
			}
		}
		s := pick[c.T.Draw(len(pick))]
		return c01Source{s.Name, []byte(s.Text)}
	}
	switch c.T.Draw(3) {
	case 0:
		cs := Corpus()
		s := cs[c.T.Draw(len(cs))]
		return c01Source{s.Name, []byte(s.Text)}
	case 1:
		o := vclgen.Default()
		o.Comments = c.T.Bool(1, 2)
		o.MaxDecls = 3
		return c01Source{"gen/snippet", []byte(vclgen.Snippet(c.T, o))}
	default:
		o := vclgen.Default()
		o.Comments = c.T.Bool(1, 2)
		return c01Source{"gen/program", []byte(vclgen.Program(c.T, o))}
	}
}

const historyProbe = "sub vcl_recv {\n  set req.http.P = \"probe%20value\";\n  log \"second\" + req.http.P;\n  if (req.url ~ \"^/a\") {\n    error 601 \"x\";\n  }\n}\n"

// validPlain names corpus sources that are valid VCL for a plain parser and use
// the test runner's reserved words as ordinary identifiers.
var validPlain = map[string]bool{"hand/describe-words": true, "hand/hook-words": true}

var controlSplices = []string{"pragma optional_param x 1;", "pragma optional_param x 1", "pragma", "pragma ", "C!", "W!", "C", "W!;", "pragma a b c d e f g;", "\npragma x\n"}

var (
	prefOnce sync.Once
	prefCum  []int
	prefSrc  []source
)

func prefixSpace(tier string) ([]source, []int) {
	prefOnce.Do(func() {
		total := 0
		for _, s := range Corpus() {
			limit := 4 << 10
			if tier == "thorough" {
				limit = 64 << 10
			} else if !strings.HasPrefix(s.Name, "hand/") {
				continue
			}
			if len(s.Text) > limit {
				continue
			}
			prefSrc = append(prefSrc, s)
			total += len(s.Text) + 1
			prefCum = append(prefCum, total)
		}
	})
	return prefSrc, prefCum
}

func c01NumEnum(tier string) int {
	_, cum := prefixSpace(tier)
	if len(cum) == 0 {
		return 0
	}
	return cum[len(cum)-1]
}

func c01EnumPrefix(tier string, i int) []uint64 {
	_, cum := prefixSpace(tier)
	idx := sort.SearchInts(cum, i+1)
	off := i
	if idx > 0 {
		off = i - cum[idx-1]
	}
	return []uint64{3, uint64(idx), uint64(off)}
}

// c01Alone is what one independent user of the lexer and parser gets.
type c01Alone struct {
	tokens string
	parse  string
}

func c01Use(src []byte, entryNo int, c *worker.Ctx) (out c01Alone) {
	lo := runLex(src, simio.Plan{Chunk: "all", Terminal: "eof"}, c)
	var b strings.Builder
	for _, t := range lo.tokens {
		fmt.Fprintf(&b, "%s|%s|%d:%d\n", t.Type, t.Literal, t.Line, t.Position)
	}
	if lo.panicV != nil {
		fmt.Fprintf(&b, "panic: %v", lo.panicV)
	}
	out.tokens = b.String() + lo.spin
	po := runEntry(entries[entryNo], src, simio.Plan{Chunk: "all", Terminal: "eof"}, c)
	switch po.class() {
	case "tree":
		out.parse = "tree: " + po.rendered
	case "error":
		out.parse = "error: " + po.err.Error()
	case "panic":
		out.parse = fmt.Sprintf("panic: %v at %s", po.panicV, po.stack)
	default:
		out.parse = "spin: " + po.spin
	}
	return
}

// runC01Interleaved: two to four independent users lex and parse different
// sources, preempted inside the lexer's and parser's loops. Every one of them
// must get exactly what it gets alone.
func runC01Interleaved(c *worker.Ctx) {
	res := c.Res
	n := 2 + c.T.Draw(3)
	var srcs []c01Source
	var ents []int
	for i := 0; i < n; i++ {
		s := c01DrawSource(c)
		if len(s.text) > 1500 {
			s.text = s.text[:1500]
		}
		if c.T.Bool(1, 3) {
			s.text, _ = tokenMutation(c, s.text)
		}
		srcs = append(srcs, s)
		ents = append(ents, c.T.Draw(len(entries)))
	}
	alone := make([]c01Alone, n)
	for i := range srcs {
		// "alone" means alone: no buffer of another user's parse is lying in a pool
		simsync.ResetPools()
		alone[i] = c01Use(srcs[i].text, ents[i], c)
	}
	simsync.ResetPools()
	every := []int{1, 1, 3, 17, 101}[c.T.Draw(5)]
	got := make([]c01Alone, n)
	var tasks []*coTask
	for i := range srcs {
		i := i
		tasks = append(tasks, &coTask{name: fmt.Sprintf("user-%d", i), fn: func() { got[i] = c01Use(srcs[i].text, ents[i], c) }})
	}
	s := runInterleaved(c.T, every, tasks)
	c.Logf("interleaved %s every=%d", s, every)
	res.Sig = fmt.Sprintf("il|%d|%d|%x", n, every, hash32([]byte(alone[0].tokens)))
	res.Nontrivial = s.Switches > 0
	if s.Switches > 0 {
		res.Probe("users_interleaved_inside_lexer_or_parser")
	}
	for i, tk := range tasks {
		what := ""
		switch {
		case tk.panicV != nil:
			what = fmt.Sprintf("crashed: %v at %s", tk.panicV, tk.stack)
		case got[i].tokens != alone[i].tokens:
			what = "lexed a different token stream: " + firstLineDiff(alone[i].tokens, got[i].tokens)
		case got[i].parse != alone[i].parse:
			what = "got a different parse result: " + firstLineDiff(alone[i].parse, got[i].parse)
		}
		if what != "" {
			key := "C01/interleaved-users:tokens"
			if tk.panicV != nil {
				key = "C01/interleaved-users:panic:" + tk.stack
			} else if got[i].tokens == alone[i].tokens {
				key = "C01/interleaved-users:parse"
			}
			res.Violate("C01/O5-independent-users", key, fmt.Sprintf("%d independent users of the lexer and parser ran interleaved (%s, preemption every %d loop iterations); user %d (%s via %s) %s\ninput of that user:\n%s", n, s, every, i, srcs[i].id, entries[ents[i]].name, what, clipSrc(string(srcs[i].text))))
			break
		}
	}
	if c.Render {
		var ids []string
		for i, sr := range srcs {
			ids = append(ids, fmt.Sprintf("%s via %s (%d bytes)", sr.id, entries[ents[i]].name, len(sr.text)))
		}
		res.Rendering = map[string]any{"mode": "interleaved users", "users": ids, "preempt_every_loop_iterations": every, "schedule": s.String()}
	}
}

func firstLineDiff(a, b string) string {
	la, lb := strings.Split(a, "\n"), strings.Split(b, "\n")
	for i := 0; i < len(la) || i < len(lb); i++ {
		var x, y string
		if i < len(la) {
			x = la[i]
		}
		if i < len(lb) {
			y = lb[i]
		}
		if x != y {
			return fmt.Sprintf("line %d: alone %q, interleaved %q", i, clipSrc(x), clipSrc(y))
		}
	}
	return "(equal)"
}

// ---- deep nesting -------------------------------------------------------------
//
// Sources whose nesting (parentheses, negations, blocks, if blocks, calls) or
// operator chains are 10⁵ to 3·10⁶ levels deep: a recursive-descent parser
// without a bound on its depth exhausts the goroutine stack on them, which the
// Go runtime turns into a fatal error no recover() sees (the worker dies; the
// driver re-runs the case alone and reports it). Rare (about one case in
// 20 000) because each costs up to a few seconds and several hundred MB.

var deepDepths = []int{20000, 99000, 100001, 150000, 1300000, 3000000}
var deepKinds = []string{"paren", "not", "block", "if", "chain", "mix", "call", "minus"}

func deepSource(kind string, n int, snippet bool) []byte {
	var b strings.Builder
	rep := func(unit string, k int) { // a newline every 500 units keeps the lines short
		for i := 0; i < k; i += 500 {
			m := min(500, k-i)
			b.WriteString(strings.Repeat(unit, m))
			b.WriteString("\n")
		}
	}
	if !snippet {
		b.WriteString("sub vcl_recv {\n")
	}
	switch kind {
	case "paren":
		b.WriteString("set req.http.X = ")
		rep("(", n)
		b.WriteString("\"a\"")
		rep(")", n)
		b.WriteString(";\n")
	case "not":
		b.WriteString("if (")
		rep("!", n)
		b.WriteString("req.http.A) { esi; }\n")
	case "minus":
		b.WriteString("set req.http.X = ")
		rep("- ", n)
		b.WriteString("1;\n")
	case "block":
		rep("{", n)
		b.WriteString("esi;\n")
		rep("}", n)
	case "if":
		rep("if (req.http.A) { ", n)
		b.WriteString("esi;\n")
		rep("}", n)
	case "chain":
		b.WriteString("set req.http.X = ")
		rep("\"a\" ", n)
		b.WriteString(";\n")
	case "call":
		b.WriteString("set req.http.X = ")
		rep("f(", n)
		b.WriteString("1")
		rep(")", n)
		b.WriteString(";\n")
	default: // mix: L nested groups, each the first operand of a chain of L operands (tree height L²)
		l := 1
		for l*l < n {
			l++
		}
		b.WriteString("set req.http.X = ")
		rep("(", l)
		b.WriteString("\"x\"")
		for i := 0; i < l; i++ {
			rep(" \"a\"", l)
			b.WriteString(")")
		}
		b.WriteString(";\n")
	}
	if !snippet {
		b.WriteString("}\n")
	}
	return []byte(b.String())
}

func runC01Deep(c *worker.Ctx) {
	res := c.Res
	kind := deepKinds[c.T.Draw(len(deepKinds))]
	n := deepDepths[c.T.Draw(len(deepDepths))]
	ei := c.T.Draw(2) // ParseVCL or ParseSnippetVCL
	src := deepSource(kind, n, ei == 1)
	c.Logf("deep kind=%s n=%d entry=%s bytes=%d", kind, n, entries[ei].name, len(src))
	res.Sig = fmt.Sprintf("deep|%s|%d|%d", kind, n, ei)
	res.Nontrivial = true
	res.Fault("deep_nesting")
	skipRender = true
	defer func() { skipRender = false }()
	o := runEntry(entries[ei], src, simio.Plan{Chunk: "all", Terminal: "eof"}, c)
	what := fmt.Sprintf("%s nested %d levels (%d bytes) via %s", kind, n, len(src), entries[ei].name)
	switch {
	case o.panicV != nil:
		res.Violate("C01/O1-no-panic", "C01/parse-panic:deep:"+o.stack+":"+panicClass(o.panicV), fmt.Sprintf("parser panicked on %s: %v", what, o.panicV))
	case o.spin != "":
		res.Violate("C01/O2-terminates", "C01/parse-spin:deep:"+o.stack, fmt.Sprintf("parser does not terminate (%s budget) on %s", o.spin, what))
	case o.err != nil:
		res.Probe("deep_source_rejected_with_error")
		pe, isPE := errors.Cause(o.err).(*parser.ParseError)
		if !isPE || pe == nil {
			res.Violate("C01/O4-error-located", "C01/error-unlocated:deep:"+errClass(o.err), fmt.Sprintf("%s: the error is not a *parser.ParseError: %v", what, clipSrc(o.err.Error())))
			break
		}
		loc := newLocated(src)
		if w := checkErrorToken(pe.Token, loc, nil); w != "" && w != "not-at-text" {
			res.Violate("C01/O4-error-located", "C01/error-location:deep:"+string(pe.Token.Type)+":"+w, fmt.Sprintf("%s: error %q carries token {%s}: %s", what, pe.Message, pe.Token.String(), w))
		}
	default:
		res.Probe("deep_source_parsed")
		if isNilTree(o.tree) && ei == 0 {
			res.Violate("C01/O4-tree-xor-error", "C01/no-tree-no-error:deep", "neither a tree nor an error for "+what)
		}
	}
	if c.Render {
		res.Rendering = map[string]any{"mode": "deep nesting", "kind": kind, "levels": n, "bytes": len(src), "entry": entries[ei].name, "outcome": o.class(), "error": clipSrc(fmt.Sprint(o.err))}
	}
}

func runC01(c *worker.Ctx) {
	res := c.Res
	mode := c.T.Draw(7)
	if mode == 6 {
		switch k := c.T.Draw(3000); {
		case k < 500:
			runC01Interleaved(c)
			return
		case k == 2999:
			runC01Deep(c)
			return
		}
		mode = c.T.Draw(6)
	}
	var src c01Source
	var data []byte
	plan := simio.Plan{Chunk: "all", Terminal: "eof"}
	mutation := ""
	switch mode {
	case 3: // exact prefix of a corpus source (enumerated completely in the exhaustive sub-space)
		srcs, _ := prefixSpace(c.Tier)
		if len(srcs) == 0 {
			srcs = Corpus()
		}
		s := srcs[c.T.Draw(len(srcs))]
		k := c.T.Draw(len(s.Text) + 1)
		src = c01Source{s.Name, []byte(s.Text)}
		data = src.text[:k]
		mutation = fmt.Sprintf("prefix[:%d]", k)
		if k < len(s.Text) {
			res.Fault("truncate")
		}
	case 0:
		src = c01DrawSource(c)
		data = src.text
		plan = simio.DrawPlan(c.T, len(data), false)
	case 1:
		src = c01DrawSource(c)
		data = src.text
		plan = simio.DrawPlan(c.T, len(data), true)
		if plan.Terminal == "eof" {
			plan.Terminal, plan.CutAt = "cut", c.T.Draw(len(data)+1)
		}
		res.Fault("stream_" + plan.Terminal)
	case 2:
		src = c01DrawSource(c)
		data, mutation = simio.Corrupt(c.T, src.text)
		res.Fault("corrupt_" + strings.SplitN(mutation, "@", 2)[0])
		plan = simio.DrawPlan(c.T, len(data), c.T.Bool(1, 3))
	case 4:
		src = c01DrawSource(c)
		data, mutation = tokenMutation(c, src.text)
		res.Fault("token_" + strings.SplitN(mutation, "@", 2)[0])
		plan = simio.DrawPlan(c.T, len(data), false)
	default:
		src = c01DrawSource(c)
		data, mutation = spliceControl(c, src.text)
		res.Fault("splice_control")
		plan = simio.DrawPlan(c.T, len(data), c.T.Bool(1, 3))
	}
	c.Logf("mode=%d src=%s len=%d mutation=%s plan=%s", mode, src.id, len(data), mutation, plan)

	// What the consumer can have seen:
	delivered := data
	if plan.Terminal != "eof" && plan.CutAt < len(delivered) {
		delivered = delivered[:plan.CutAt]
	}
	loc := newLocated(delivered)
	base := simio.Plan{Chunk: "all", Terminal: "eof"}
	nontrivialPlan := !plan.Trivial()

	// ---- lexing -----------------------------------------------------------
	lx := runLex(delivered, base, c)
	outcomeSig := []string{}
	switch {
	case lx.panicV != nil:
		res.Violate("C01/O1-no-panic", "C01/lex-panic:"+lx.stack+":"+panicClass(lx.panicV), fmt.Sprintf("lexer panicked: %v\ninput (%s, %s):\n%s", lx.panicV, src.id, mutation, clipSrc(string(delivered))))
	case lx.spin != "":
		res.Violate("C01/O2-terminates", "C01/lex-spin:"+lx.stack, fmt.Sprintf("lexer does not reach EOF (%s budget) on %s %s:\n%s", lx.spin, src.id, mutation, clipSrc(string(delivered))))
	default:
		for _, t := range lx.tokens {
			if w := checkToken(t, loc, true); w != "" {
				key := "C01/token-location:" + string(t.Type) + ":" + w
				if w == "untyped" {
					key = "C01/token-untyped:" + untypedWhat(t, loc, lx.tokens)
				}
				res.Violate("C01/O3-token-located", key, fmt.Sprintf("token {%s} of %s %s: %s\ninput:\n%s", t.String(), src.id, mutation, w, clipSrc(string(delivered))))
				break
			}
		}
	}
	if nontrivialPlan && len(res.Violations) == 0 {
		lp := runLex(data, plan, c)
		if lp.shorts > 0 {
			res.Probe("short_reads_delivered")
		}
		if lp.panicV != nil || lp.spin != "" || !reflect.DeepEqual(lp.tokens, lx.tokens) {
			res.Violate("C01/O5-delivery", "C01/delivery:lexer", fmt.Sprintf("token trace depends on delivery %s (same %d bytes): panic=%v spin=%q tokens %d vs %d; first difference %s", plan, len(delivered), lp.panicV, lp.spin, len(lp.tokens), len(lx.tokens), firstTokenDiff(lp.tokens, lx.tokens)))
		}
	}

	// ---- parsing ----------------------------------------------------------
	// A fixed, valid source parsed before and after everything this case does:
	// what it parses to must not depend on what was parsed in between.
	probeBefore := runEntry(entries[0], []byte(historyProbe), base, c)
	type keptErr struct {
		entry string
		pe    *parser.ParseError
		tok   token.Token
		msg   string
	}
	var kept []keptErr
	var firstPlain passOutcome
	for ei, e := range entries {
		o := runEntry(e, delivered, base, c)
		if ei == 0 {
			firstPlain = o
		}
		outcomeSig = append(outcomeSig, o.class())
		switch {
		case o.panicV != nil:
			res.Violate("C01/O1-no-panic", "C01/parse-panic:"+o.stack+":"+panicClass(o.panicV), fmt.Sprintf("%s panicked: %v\ninput (%s, %s):\n%s", e.name, o.panicV, src.id, mutation, clipSrc(string(delivered))))
		case o.spin != "":
			res.Violate("C01/O2-terminates", "C01/parse-spin:"+o.stack, fmt.Sprintf("%s asked for more than 64·(n+64) tokens / kept reading after EOF (%s) — it does not terminate\ninput (%s, %s):\n%s", e.name, o.spin, src.id, mutation, clipSrc(string(delivered))))
		case o.err != nil:
			res.Probe("parse_error_returned")
			// the property's observation point is errors.Cause(err).(*parser.ParseError):
			// a plain type assertion, as every caller in falco does it; a ParseError
			// buried under a %w wrapper does not reach those callers.
			pe, isPE := errors.Cause(o.err).(*parser.ParseError)
			if !isPE || pe == nil {
				pe = nil
				res.Violate("C01/O4-error-located", "C01/error-unlocated:"+errClass(o.err), fmt.Sprintf("%s returned an error that is not a *parser.ParseError and carries no location: %v\ninput (%s, %s):\n%s", e.name, o.err, src.id, mutation, clipSrc(string(delivered))))
			} else if w := checkErrorToken(pe.Token, loc, lx.tokens); w != "" {
				key := "C01/error-location:" + string(pe.Token.Type) + ":" + w
				if w == "untyped" {
					key = "C01/error-token-untyped:" + untypedWhat(pe.Token, loc, nil)
				}
				res.Violate("C01/O4-error-located", key, fmt.Sprintf("%s: error %q carries token {%s}: %s\ninput (%s, %s):\n%s", e.name, pe.Message, pe.Token.String(), w, src.id, mutation, clipSrc(string(delivered))))
			} else {
				res.Probe("parse_error_located")
			}
			if pe != nil {
				kept = append(kept, keptErr{e.name, pe, pe.Token, pe.Message})
			}
		default:
			if isNilTree(o.tree) && e.name != "ParseSnippetVCL" {
				res.Violate("C01/O4-tree-xor-error", "C01/no-tree-no-error:"+e.name, fmt.Sprintf("%s returned neither a tree nor an error\ninput:\n%s", e.name, clipSrc(string(delivered))))
			}
			res.Probe("parse_tree")
		}
		if nontrivialPlan {
			op := runEntry(e, data, plan, c)
			if op.class() != o.class() || (o.err != nil && op.err != nil && o.err.Error() != op.err.Error()) ||
				(o.class() == "tree" && (op.rendered != o.rendered || astcmp.Diff(o.tree, op.tree) != "")) {
				diff := ""
				if o.class() == "tree" && op.class() == "tree" {
					diff = "\ntree difference: " + astcmp.Diff(o.tree, op.tree)
				}
				res.Violate("C01/O5-delivery", "C01/delivery:"+e.name, fmt.Sprintf("%s outcome depends on delivery %s (same %d bytes): %s/%v vs all-at-once %s/%v%s", e.name, plan, len(delivered), op.class(), op.err, o.class(), o.err, diff))
			}
		}
	}
	// History: parsers with other options (the test runner's custom parsers)
	// have existed since the first plain parse of this input — in this case
	// and, except in a fresh process, in earlier ones. A plain parse of the
	// same bytes must still end the same way; and a source that is valid VCL
	// (validPlain: its identifiers are words only the test runner's syntax
	// reserves) is owed a tree both times. One key for both observations: in
	// a fresh process (the replay) the first parse is still untouched and only
	// the second differs.
	if len(res.Violations) == 0 && firstPlain.panicV == nil && firstPlain.spin == "" {
		again := runEntry(entries[0], delivered, base, c)
		same := again.class() == firstPlain.class() && again.rendered == firstPlain.rendered
		if same && again.err != nil && firstPlain.err != nil {
			same = again.err.Error() == firstPlain.err.Error()
		}
		owedTree := validPlain[src.id] && mutation == "" && len(delivered) == len(src.text)
		if owedTree {
			res.Probe("valid_source_with_test_syntax_words_parsed_plain")
		}
		switch {
		case !same:
			res.Violate("C01/O5-independent-users", "C01/history:plain-parse-changed", fmt.Sprintf("the same bytes parsed again with a plain parser, after parsers with the test runner's custom syntax had parsed them, end differently: first %s (%v), now %s (%v)\ninput (%s, %s):\n%s", firstPlain.class(), firstPlain.err, again.class(), again.err, src.id, mutation, clipSrc(string(delivered))))
		case owedTree && again.class() != "tree":
			res.Violate("C01/O5-independent-users", "C01/history:plain-parse-changed", fmt.Sprintf("a valid VCL source is rejected by a plain parser (%v); the words it uses as identifiers are reserved only by the test runner's custom syntax, which other parsers of this process have used before\ninput (%s):\n%s", again.err, src.id, clipSrc(string(delivered))))
		}
		res.Probe("plain_parse_repeated_after_custom_parsers")
	}
	if len(res.Violations) == 0 {
		probeAfter := runEntry(entries[0], []byte(historyProbe), base, c)
		if probeAfter.class() != probeBefore.class() || probeAfter.rendered != probeBefore.rendered || astcmp.Diff(probeBefore.tree, probeAfter.tree) != "" {
			res.Violate("C01/O5-independent-users", "C01/history:later-parse-changed", fmt.Sprintf("a fixed valid source parses differently after the parses of this case than before them: before %s, after %s (%v); tree difference: %s\nsource parsed in between (%s, %s):\n%s", probeBefore.class(), probeAfter.class(), probeAfter.err, astcmp.Diff(probeBefore.tree, probeAfter.tree), src.id, mutation, clipSrc(string(delivered))))
		}
		res.Probe("fixed_source_parsed_before_and_after")
	}
	// An error value keeps designating its own text: a later parse (another
	// entry point, another source) must not change what an earlier error says.
	if len(kept) > 0 && len(res.Violations) == 0 {
		other := "sub vcl_recv {\n\n\n      set req.http.X = \"a\"\n}\n" // fails elsewhere: missing semicolon on line 4
		runEntry(entries[0], []byte(other), base, c)
		runEntry(entries[1], []byte("\n\n   log \"x\"\nset req.http.Y = ;\n"), base, c)
		runEntry(entries[0], []byte("acl a {\n\n  \"10.0.0.0\"/8\n}\ntable t {\n  \"k\" \"v\"\n}\n"), base, c)
		for _, k := range kept {
			if k.pe.Token != k.tok || k.pe.Message != k.msg {
				res.Violate("C01/O4-error-located", "C01/error-aliased", fmt.Sprintf("the error returned by %s said {%s} %q; after later, unrelated parses the same error value says {%s} %q\ninput:\n%s", k.entry, k.tok.String(), k.msg, k.pe.Token.String(), k.pe.Message, clipSrc(string(delivered))))
				break
			}
		}
		res.Probe("error_value_rechecked_after_later_parses")
	}
	if mode == 1 || mode == 3 {
		// did the cut land inside a token? (reach probe)
		if len(delivered) > 0 && len(delivered) < len(src.text) {
			a, b := src.text[len(delivered)-1], src.text[len(delivered)]
			if !isSpace(a) && !isSpace(b) {
				res.Probe("cut_inside_token")
			}
		}
	}
	res.Nontrivial = nontrivialPlan || mutation != ""
	planClass := plan.Chunk + "/" + plan.Terminal
	if mode == 3 {
		res.Sig = fmt.Sprintf("pre|%s|%d", src.id, len(delivered))
	} else {
		res.Sig = fmt.Sprintf("%d|%s|%s|%s|%s|%x", mode, src.id, planClass, strings.SplitN(mutation, "@", 2)[0], strings.Join(outcomeSig, ","), hash32(delivered))
	}
	if c.Render {
		res.Rendering = map[string]any{"mode": mode, "source": src.id, "mutation": mutation, "plan": plan.String(), "delivered_bytes": len(delivered), "tokens": len(lx.tokens), "outcomes": map[string]string{"ParseVCL": outcomeSig[0], "ParseSnippetVCL": outcomeSig[1], "ParseVCLOrSnippet": outcomeSig[2]}, "input": clipSrc(string(delivered))}
	}
}

func hash32(b []byte) uint32 {
	var h uint32 = 2166136261
	for _, x := range b {
		h ^= uint32(x)
		h *= 16777619
	}
	return h
}

func isSpace(b byte) bool { return b == ' ' || b == '\n' || b == '\t' || b == '\r' }

func isNilTree(t any) bool {
	switch v := t.(type) {
	case *ast.VCL:
		return v == nil
	case nil:
		return true
	}
	return false
}

// untypedWhat names the character a typeless token stands for: the token has
// no position, so take the source character between its neighbours.
func untypedWhat(t token.Token, loc *located, all []token.Token) string {
	if t.Literal != "" {
		return t.Literal
	}
	// find it in the token list and look at the text after the previous token
	for i, x := range all {
		if x.Type == "" && i > 0 {
			at, ok := loc.at(all[i-1].Line, all[i-1].Position)
			if ok {
				rest := strings.TrimLeft(strings.TrimPrefix(at, all[i-1].Literal), " \t\r")
				for _, op := range []string{"<<", ">>", "|", "&", "^", "*"} {
					if strings.HasPrefix(rest, op) {
						return op
					}
				}
			}
			break
		}
		if x.Type == "" && i == 0 {
			src := strings.TrimLeft(strings.Join(loc.lines, "\n"), " \t\r")
			for _, op := range []string{"<<", ">>", "|", "&", "^", "*"} {
				if strings.HasPrefix(src, op) {
					return op
				}
			}
		}
	}
	return "?"
}

func firstTokenDiff(a, b []token.Token) string {
	for i := 0; i < len(a) && i < len(b); i++ {
		if a[i] != b[i] {
			return fmt.Sprintf("#%d {%s} vs {%s}", i, a[i].String(), b[i].String())
		}
	}
	return "length"
}

// tokenMutation deletes or duplicates one token of the source (located with
// the real lexer under a budget).
func tokenMutation(c *worker.Ctx, src []byte) ([]byte, string) {
	lx := runLex(src, simio.Plan{Chunk: "all", Terminal: "eof"}, c)
	loc := newLocated(src)
	type span struct{ off, n int }
	var spans []span
	// byte offsets of line starts
	lineOff := make([]int, len(loc.lines)+1)
	for i, l := range loc.lines {
		lineOff[i+1] = lineOff[i] + len(l) + 1
	}
	for _, t := range lx.tokens {
		if t.Type == token.EOF || t.Type == token.LF || t.Type == "" {
			continue
		}
		at, ok := loc.at(t.Line, t.Position)
		if !ok {
			continue
		}
		lineLen := len(loc.lines[t.Line-1])
		if t.Line < len(loc.lines) {
			lineLen++
		}
		off := lineOff[t.Line-1] + (lineLen - len(at))
		n := len(t.Literal)
		if t.Type == token.STRING {
			n += 2
		}
		if off < 0 || off+n > len(src) || n == 0 {
			continue
		}
		spans = append(spans, span{off, n})
	}
	if len(spans) == 0 {
		return src, "none"
	}
	i := c.T.Draw(len(spans))
	s := spans[i]
	switch c.T.Draw(3) {
	case 0:
		out := append(append([]byte{}, src[:s.off]...), src[s.off+s.n:]...)
		return out, fmt.Sprintf("delete@%d+%d", s.off, s.n)
	case 1:
		// delete a run of up to six consecutive tokens (a whole statement, a clause body …)
		j := i + c.T.Draw(6)
		if j >= len(spans) {
			j = len(spans) - 1
		}
		end := spans[j].off + spans[j].n
		if end > s.off {
			out := append(append([]byte{}, src[:s.off]...), src[end:]...)
			return out, fmt.Sprintf("delete-run@%d+%d", s.off, end-s.off)
		}
	}
	out := append(append(append([]byte{}, src[:s.off+s.n]...), ' '), src[s.off:]...)
	return out, fmt.Sprintf("duplicate@%d+%d", s.off, s.n)
}

// spliceControl inserts a Fastly control token / pragma form at a tape-chosen
// whitespace boundary (or at the very end).
func spliceControl(c *worker.Ctx, src []byte) ([]byte, string) {
	var cand []int
	for i, b := range src {
		if isSpace(b) {
			cand = append(cand, i)
		}
	}
	cand = append(cand, len(src))
	pos := cand[c.T.Draw(len(cand))]
	if c.T.Bool(1, 3) {
		pos = len(src)
	}
	ins := controlSplices[c.T.Draw(len(controlSplices))]
	if c.T.Bool(1, 3) {
		// the source ends right after the spliced form (blocks may still be open)
		out := append(append([]byte{}, src[:pos]...), []byte(" "+ins)...)
		return out, fmt.Sprintf("splice-and-end@%d(%q)", pos, ins)
	}
	out := append(append(append([]byte{}, src[:pos]...), []byte(" "+ins)...), src[pos:]...)
	return out, fmt.Sprintf("splice@%d(%q)", pos, ins)
}
