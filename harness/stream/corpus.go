package stream

import (
	"fmt"
	"os"
	"path/filepath"
	"sort"
	"strings"
	"sync"

	"github.com/ysugimoto/falco/v2/ast"
	"github.com/ysugimoto/falco/v2/ast/codec"
)

type source struct {
	Name string
	Text string
}

// handSources are edge seeds: each opener unterminated, each Fastly control
// token, each operator character alone, one instance of every node kind.
var handSources = []source{
	{"hand/every-kind", `
acl a1 { "10.0.0.0"/8; !"10.1.0.0"/16; "2001:db8::"/32; "127.0.0.1"; }
backend F_b { .host = "example.com"; .port = "443"; .ssl = true; .first_byte_timeout = 15s; .probe = { .request = "HEAD / HTTP/1.1" "Host: x"; .window = 5; } }
director d1 random { .quorum = 50%; .retries = 3; { .backend = F_b; .weight = 1; } }
table t1 STRING { "k": "v", "e": "", }
table t2 { "a": "b" }
penaltybox pb {}
ratecounter rc {}
include "mod";
import foo;
sub f1(STRING var.p0, INTEGER var.p1) BOOL { return var.p0 == "x"; }
sub vcl_recv {
  declare local var.s STRING;
  declare local var.i INTEGER;
  set var.s = "a" "b" + req.http.X {"long"} {EOT"x"EOT};
  set var.i <<= 2;
  set req.http.X = if(req.http.Y, "1", "0");
  unset req.http.Z;
  remove req.http.W;
  add resp.http.Set-Cookie = "a=b";
  call f1("a", 1);
  call f2;
  call f3();
  error 404 "nf";
  error;
  error 500;
  esi;
  log "x" req.url;
  restart;
  return(lookup);
  return;
  return (pass);
  synthetic "body";
  synthetic.base64 "Ym9keQ==";
  if (req.http.A ~ "^a" && !req.http.B || (req.http.C == "c")) { esi; } else if (req.http.D) { esi; } elseif (req.http.E) { esi; } elsif (req.http.F) { esi; } else { esi; }
  switch (req.http.host) { case "1": esi; break; default: esi; fallthrough; case ~ "[2-3]": esi; break; }
  goto l1;
  l1:
  std.collect(req.http.X);
  { log "nested"; }
  set var.i = -1;
  set var.s = "%20%u0041";
  set var.s = "";
  set beresp.ttl = 10s;
  set var.i = 0x1F;
}
`},
	{"hand/unterminated-string", `sub vcl_recv { set req.http.X = "abc`},
	{"hand/unterminated-long", `sub vcl_recv { set req.http.X = {"abc`},
	{"hand/unterminated-delim", `sub vcl_recv { set req.http.X = {xyz"abc"xy`},
	{"hand/unterminated-comment", `sub vcl_recv { /* abc`},
	{"hand/pragma", "pragma optional_param geoip_opt_in true;\nsub vcl_recv { esi; }\n"},
	{"hand/pragma-eof", "sub vcl_recv { esi; }\npragma optional_param geoip_opt_in true"},
	{"hand/control", "C!\nW!\nsub vcl_recv { esi; }\nC!"},
	{"hand/operators", "sub vcl_recv { set var.a = 1 | 2; set var.b = 1 & 2; set var.c = 1 ^ 2; set var.d = 1 * 2; set var.e = 1 << 2; set var.f = 1 >> 2; }"},
	{"hand/lone-pipe", "|"}, {"hand/lone-amp", "&"}, {"hand/lone-caret", "^"}, {"hand/lone-star", "*"}, {"hand/lone-shl", "<<"}, {"hand/lone-shr", ">>"},
	{"hand/crlf", "sub vcl_recv {\r\n  set req.http.X = \"a\";\r\n  # c\r\n}\r\n"},
	{"hand/multibyte", "sub vcl_recv {\n  set req.http.X = \"héllo ✓\"; log \"日本\";\n}\n"},
	{"hand/empty", ""},
	{"hand/snippet", "set req.http.X = \"a\";\nif (req.http.Y) { esi; }\nlog \"x\";\n"},
	{"hand/switch-forms", "sub vcl_recv { switch (req.url) { case \"a\": } }\nsub vcl_hit { switch (req.url) { default: } }\nsub vcl_miss { switch (req.url) { case \"a\": break; case \"b\": } }\nsub vcl_pass { switch (req.url) { } }\nsub vcl_fetch { switch (req.url) { case \"a\": fallthrough; } }\nsub vcl_log { switch { } }"},
	{"hand/empty-bodies", "sub a {}\nacl b {}\ntable c {}\nbackend d {}\ndirector e random {}\nsub f { if (x) {} else {} }\nsub g { {} }"},
	{"hand/half-statements", "sub vcl_recv { set ; unset ; add ; call ; declare ; declare local ; error ; log ; return ( ; return () ; synthetic ; goto ; if ; if ( ; if () {} ; switch ; include ; import ; }"},
	{"hand/pragma-in-block", "sub vcl_recv { pragma optional_param geoip_opt_in true"},
	{"hand/describe", "describe suite {\n  before_recv {\n    set req.http.X = \"1\";\n  }\n  sub test_a {\n    assert.equal(req.http.X, \"1\");\n  }\n  after_deliver {\n    log \"x\";\n  }\n}\nsub describe {\n  esi;\n}\nsub before_recv {\n  esi;\n}\n"},
	{"hand/describe-broken-sub", "describe s {\n  sub t {\n    set req.http.X = ;\n  }\n}\n"},
	{"hand/describe-broken-hook", "describe s {\n  before_fetch {\n    set = ;\n  }\n}\n"},
	{"hand/describe-open", "describe s {\n  sub t {\n    esi;\n  }\n  after_log {"},
	{"hand/describe-words", "sub vcl_recv {\n  set req.http.describe = \"before_recv\";\n  call describe;\n}\nsub describe {\n}\n"},
	{"hand/hook-words", "sub before_recv {\n  set req.http.after_log = \"describe\";\n}\nsub after_deliver {\n  call before_recv;\n}\nsub vcl_recv {\n  call after_deliver;\n  if (req.http.before_fetch) {\n    call describe;\n  }\n}\nsub describe {\n  esi;\n}\n"},
	{"hand/bad-escape-1", "sub vcl_recv {\n  set req.http.X = \"Sale: 100% off\";\n  set req.http.Y = \"strict\";\n}\n"},
	{"hand/bad-escape-2", "sub vcl_recv {\n  set req.http.X = \"abc%zzdef\";\n}\n"},
	{"hand/bad-escape-3", "sub vcl_recv {\n  set req.http.X = \"partly %41 then %4\";\n  log \"after\";\n}\n"},
	{"hand/bad-escape-4", "sub vcl_recv {\n  log \"ok %20 fine\";\n  log \"long prefix before the bad one %u12\";\n}\n"},
	{"hand/bad-escape-5", "sub vcl_recv {\n  set req.http.X = \"%u{110000}\";\n  set req.http.Z = \"z\";\n}\n"},
	{"hand/bad-escape-6", "table t {\n  \"k%\": \"v\",\n  \"k2\": \"v2\",\n}\n"},
	{"hand/good-escape-1", "sub vcl_recv {\n  set req.http.X = \"a%20b\";\n  set req.http.Y = \"%u0041%u{1F600}\";\n  log \"plain\";\n}\n"},
	{"hand/error-forms", "sub vcl_recv {\n  error \"denied\";\n}\n"},
	{"hand/error-forms-2", "sub vcl_recv {\n  error (601);\n}\n"},
	{"hand/error-forms-3", "sub vcl_recv {\n  error true;\n}\n"},
	{"hand/error-forms-4", "sub vcl_recv {\n  error 6.5 \"x\";\n}\n"},
	{"hand/error-forms-5", "sub vcl_recv {\n  error \"601\" \"x\";\n}\n"},
	{"hand/error-forms-6", "sub vcl_recv {\n  error 601 + 1;\n}\n"},
	{"hand/error-forms-7", "sub vcl_recv {\n  error req.http.X;\n}\n"},
	{"hand/error-forms-8", "sub vcl_recv {\n  error std.atoi(\"601\") \"x\";\n}\n"},
	{"hand/long-concat", "sub vcl_recv {\n  set req.http.X = " + strings.Repeat("\"a\" req.http.B ", 150) + ";\n}\n"},
	{"hand/long-or", "sub vcl_recv {\n  if (" + strings.Repeat("req.http.A || ", 200) + "req.http.Z) {\n    esi;\n  }\n}\n"},
	{"hand/deep-parens", "sub vcl_recv {\n  set req.http.X = " + strings.Repeat("(", 200) + "\"a\"" + strings.Repeat(")", 200) + ";\n}\n"},
	{"hand/deep-if", "sub vcl_recv {\n" + strings.Repeat("if (req.http.A) {\n", 150) + "esi;\n" + strings.Repeat("}\n", 150) + "}\n"},
	{"hand/long-non-ascii", "sub vcl_error {\n  synthetic {\"x" + strings.Repeat("\u3067\u3059", 400) + "\"};\n  set obj.http.X = \"" + strings.Repeat("\u00e9", 700) + "\";\n}\n"},
	{"hand/deep", "sub vcl_recv { if (a) { if (b) { if (c) { if (d) { if (e) { esi; } } } } } }"},
}

var (
	corpusOnce sync.Once
	corpus     []source
)

func repoRoot() string {
	if r := os.Getenv("FALCOSIM_REPO"); r != "" {
		return r
	}
	return "/repo"
}

// Corpus is the hand list plus every .vcl file in the repository (sorted by
// path so that indexes are stable for a given tree).
func Corpus() []source {
	corpusOnce.Do(func() {
		corpus = append(corpus, handSources...)
		corpus = append(corpus, runSources()...)
		corpus = append(corpus, numberSources()...)
		var files []string
		filepath.Walk(repoRoot(), func(p string, info os.FileInfo, err error) error {
			if err != nil {
				return nil
			}
			if info.IsDir() && (info.Name() == ".git" || info.Name() == "node_modules") {
				return filepath.SkipDir
			}
			if !info.IsDir() && strings.HasSuffix(p, ".vcl") {
				files = append(files, p)
			}
			return nil
		})
		sort.Strings(files)
		for _, f := range files {
			b, err := os.ReadFile(f)
			if err != nil || len(b) > 64<<10 {
				continue
			}
			rel, _ := filepath.Rel(repoRoot(), f)
			corpus = append(corpus, source{"repo/" + rel, string(b)})
		}
	})
	return corpus
}

type encItem struct {
	Name string
	Stmt ast.Statement
	Enc  []byte
}

var (
	encOnce  sync.Once
	encItems []encItem
	encCum   []int // cumulative number of cut offsets
)

// encCorpus: every top-level statement of every parseable corpus source whose
// encoding is at most 2 KiB (the exhaustive cut sub-space of C19).
func encCorpus() []encItem {
	encOnce.Do(func() {
		for _, s := range Corpus() {
			v, err := parseSource(s.Text)
			var stmts []ast.Statement
			if err == nil {
				stmts = v.Statements
			} else if st, err2 := parseSnippet(s.Text); err2 == nil {
				stmts = st
			}
			for _, st := range stmts {
				func() {
					defer func() { recover() }()
					b, err := codec.NewEncoder().Encode(st)
					limit := 2048
					if strings.HasPrefix(s.Name, "hand/") {
						limit = 16 << 10 // the hand-written long and deep forms
					}
					if err != nil || len(b) > limit {
						return
					}
					encItems = append(encItems, encItem{s.Name, st, append([]byte{}, b...)})
				}()
			}
		}
		total := 0
		for _, it := range encItems {
			total += len(it.Enc) + 1
			encCum = append(encCum, total)
		}
	})
	return encItems
}

func c19NumEnum(tier string) int {
	encCorpus()
	if len(encCum) == 0 {
		return 0
	}
	n := encCum[len(encCum)-1]
	if tier != "thorough" {
		// quick: the hand list only (it comes first in the corpus)
		n = 0
		for i, it := range encItems {
			if !strings.HasPrefix(it.Name, "hand/") {
				break
			}
			n = encCum[i]
		}
	}
	return n
}

func c19EnumPrefix(tier string, i int) []uint64 {
	encCorpus()
	idx := sort.SearchInts(encCum, i+1)
	off := i
	if idx > 0 {
		off = i - encCum[idx-1]
	}
	return []uint64{3, uint64(idx), uint64(off), 0 /* plan: all */}
}

// runSources: an opener followed by a run of one character class whose length
// sits around the lexer's 4096-byte read buffer, alone and inside a statement.
func runSources() []source {
	var out []source
	runs := []struct{ name, open, ch, close string }{
		{"brace-word", "{", "a", ""}, {"brace-word-closed", "{", "a", "}"}, {"long-string", "{\"", "a", "\"}"}, {"delim-string", "{", "x", "\"v\""},
		{"string", "\"", "a", "\""}, {"string-open", "\"", "a", ""}, {"digits", "", "7", ""}, {"hex", "0x", "f", ""}, {"ident", "", "i", ""},
		{"hash-comment", "#", "c", "\n"}, {"slash-comment", "//", "c", ""}, {"block-comment", "/*", "*", "*/"}, {"block-comment-open", "/*", "*", ""},
		{"spaces", "", " ", ""}, {"newlines", "", "\n", ""}, {"braces", "", "{", ""}, {"parens", "", "(", ""}, {"percent", "\"", "%", "\""}, {"dots", "req", ".", "x"}, {"minus", "", "-", "1"}, {"bang", "", "!", "x"},
	}
	for _, r := range runs {
		for _, n := range []int{4095, 4096, 4097, 8200} {
			body := r.open + strings.Repeat(r.ch, n) + r.close
			out = append(out, source{fmt.Sprintf("run/%s-%d", r.name, n), body})
			out = append(out, source{fmt.Sprintf("run/%s-%d-in-set", r.name, n), "sub vcl_recv {\n  set req.http.X = " + body + ";\n}\n"})
		}
	}
	return out
}

// numberSources: every position that takes a number, filled with literals the
// lexer accepts as a number token but that convert badly or not at all.
func numberSources() []source {
	odd := []string{"0x", "0X", "0x.", "99999999999999999999", "9223372036854775808", "-9223372036854775809", "0xFFFFFFFFFFFFFFFFF", "1e99999", "0x1p99999", "1.", "1..2", "00", "08", "1e", "1e+", "1ms2", "5q", "1.5.5", "1e3", "0x1.8p1", "-0", "+1", "1s", "1.5h", "9999999999999999999999d"}
	pos := []string{
		"acl a {\n  \"10.0.0.0\"/%s;\n}\n",
		"acl a {\n  !\"2001:db8::\"/%s;\n}\n",
		"sub vcl_recv {\n  error %s;\n}\n",
		"sub vcl_recv {\n  error %s \"m\";\n}\n",
		"sub vcl_recv {\n  declare local var.i INTEGER;\n  set var.i = %s;\n  set var.i += %s;\n}\n",
		"sub vcl_recv {\n  if (req.restarts > %s) {\n    restart;\n  }\n}\n",
		"table t INTEGER {\n  \"k\": %s,\n}\n",
		"table t FLOAT {\n  \"k\": %s\n}\n",
		"table t RTIME {\n  \"k\": %s\n}\n",
		"backend b {\n  .connect_timeout = %s;\n  .max_connections = %s;\n  .port = %s;\n}\n",
		"director d random {\n  .quorum = %s%%;\n  { .backend = b; .weight = %s; }\n}\n",
		"sub vcl_fetch {\n  set beresp.ttl = %s;\n  return(deliver);\n}\n",
		"sub vcl_recv {\n  set req.http.X = std.itoa(%s) + std.strpad(\"a\", %s, \"b\");\n}\n",
		"sub vcl_recv {\n  switch (%s) {\n  case %s:\n    break;\n  }\n}\n",
		"sub f(INTEGER var.n) INTEGER {\n  return %s;\n}\n",
		"sub vcl_recv {\n  set req.http.X = if(%s > %s, %s, %s);\n  call f(%s);\n}\n",
		"penaltybox p {}\nratecounter r {}\nsub vcl_recv {\n  if (ratelimit.check_rate(\"c\", r, %s, %s, %s, p, %s)) {\n    esi;\n  }\n}\n",
	}
	var out []source
	for pi, p := range pos {
		n := strings.Count(p, "%s")
		for _, o := range odd {
			args := make([]any, n)
			for i := range args {
				args[i] = o
			}
			out = append(out, source{fmt.Sprintf("num/pos%d/%s", pi, o), fmt.Sprintf(p, args...)})
		}
	}
	return out
}
