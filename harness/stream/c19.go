package stream

import (
	"bytes"
	"fmt"
	"regexp"
	"sort"
	"strings"

	"falcosim/sim/astcmp"
	"falcosim/sim/simio"
	"falcosim/sim/simsync"
	"falcosim/sim/vclgen"
	"falcosim/sim/worker"
	"sync"

	"github.com/ysugimoto/falco/v2/ast"
	"github.com/ysugimoto/falco/v2/ast/codec"
	"github.com/ysugimoto/falco/v2/plugin"
)

// ---------------------------------------------------------------------------
// C19 — the AST codec round-trips every statement and decoding is total.
//
// System under simulation: real codec.Encoder → simio stream → real
// codec.Decoder (and plugin.ReadLinterRequest on the same stream).
// The simulator decides how the pipe between linter and plugin delivers the
// bytes (chunking, zero reads, cut, error, corruption, splice).
// ---------------------------------------------------------------------------

type decodeOutcome struct {
	stmts   []ast.Statement
	err     error
	panicV  any
	spin    bool
	blocked bool
	reads   int
	shorts  int
	stack   string
	reqKind string
}

var idxRe = regexp.MustCompile(`\[\d+\]`)
var numRe = regexp.MustCompile(`\d+`)

// normPath strips indexes from an astcmp path so that keys name the field,
// not the position.
func normPath(d string) string {
	if i := strings.Index(d, ": "); i >= 0 {
		path := idxRe.ReplaceAllString(d[:i], "[]")
		// keep only the last two components: Type.Field
		parts := strings.Split(path, ".")
		if len(parts) > 2 {
			parts = parts[len(parts)-2:]
		}
		what := d[i+2:]
		switch {
		case strings.HasPrefix(what, "length"):
			what = "length"
		case strings.HasPrefix(what, "one side absent"):
			what = "absent"
		case strings.HasPrefix(what, "kind"):
			what = "kind"
		default:
			what = "value"
		}
		return strings.Join(parts, ".") + ":" + what
	}
	return d
}

func errClass(err error) string {
	if err == nil {
		return "nil"
	}
	s := err.Error()
	s = numRe.ReplaceAllString(s, "N")
	if i := strings.Index(s, "\n"); i >= 0 {
		s = s[:i]
	}
	if len(s) > 80 {
		s = s[:80]
	}
	return s
}

func panicClass(v any) string {
	s := fmt.Sprint(v)
	s = numRe.ReplaceAllString(s, "N")
	if len(s) > 80 {
		s = s[:80]
	}
	return s
}

func decodeWith(data []byte, plan simio.Plan, c *worker.Ctx) (out decodeOutcome) {
	r := simio.NewReader(data, plan, c.T)
	r.SpinLimit = 1000
	defer func() {
		out.reads, out.shorts = r.Reads, r.ShortReads
		if v := recover(); v != nil {
			if v == simio.SpinSentinel {
				out.spin = true
				return
			}
			if v == simio.WouldBlock {
				out.blocked = true
				return
			}
			out.panicV = v
			out.stack = innermostFalcoFrame()
		}
	}()
	out.stmts, out.err = codec.NewDecoder(r).Decode()
	return
}

func parseSource(src string) (*ast.VCL, error) {
	st, err := safeParse(src, false)
	if err != nil {
		return nil, err
	}
	return &ast.VCL{Statements: st}, nil
}

func parseSnippet(src string) ([]ast.Statement, error) { return safeParse(src, true) }

func kindProbes(res *worker.Result, stmts []ast.Statement) {
	for k := range astcmp.Kinds(stmts) {
		res.Probe("kind:" + k)
	}
}

func kindSig(stmts []ast.Statement) string {
	m := astcmp.Kinds(stmts)
	ks := make([]string, 0, len(m))
	for k := range m {
		ks = append(ks, k)
	}
	sort.Strings(ks)
	return strings.Join(ks, ",")
}

// c19Statements draws a workload: statements produced by the real parser.
func c19Statements(c *worker.Ctx) (string, []ast.Statement) {
	o := vclgen.Default()
	o.BigString = c.T.Bool(1, 6)
	o.Comments = c.T.Bool(1, 4)
	var src string
	var stmts []ast.Statement
	var err error
	if c.T.Bool(1, 3) {
		src = vclgen.Snippet(c.T, o)
		stmts, err = parseSnippet(src)
	} else {
		src = vclgen.Program(c.T, o)
		var v *ast.VCL
		v, err = parseSource(src)
		if v != nil {
			stmts = v.Statements
		}
	}
	if err != nil {
		c.Res.Probe("gen_unparseable")
		return src, nil
	}
	c.Res.Probe("gen_parsed")
	return src, stmts
}

// c19Use is one independent user of the codec: encode a statement list,
// decode it again, and describe what came back.
func c19Use(stmts []ast.Statement, single bool) (out string) {
	defer func() {
		if v := recover(); v != nil {
			out = fmt.Sprintf("panic: %v at %s", v, innermostFalcoFrame())
		}
	}()
	var enc []byte
	var err error
	if single {
		enc, err = codec.NewEncoder().Encode(stmts[0])
	} else {
		enc, err = codec.NewEncoder().Encodes(stmts)
	}
	if err != nil {
		return "encode error: " + err.Error()
	}
	got, err := codec.NewDecoder(bytes.NewReader(enc)).Decode()
	if err != nil {
		return fmt.Sprintf("%x\ndecode error: %v", enc, err)
	}
	return fmt.Sprintf("%x\n%s", enc, astcmp.Diff(stmts, got))
}

// runC19Interleaved: independent users of the codec, preempted inside its
// loops, must each get what they get alone.
func runC19Interleaved(c *worker.Ctx) {
	res := c.Res
	n := 2 + c.T.Draw(3)
	type user struct {
		src    string
		stmts  []ast.Statement
		single bool
	}
	var us []user
	for i := 0; i < n; i++ {
		src, stmts := c19Statements(c)
		if len(stmts) == 0 {
			continue
		}
		u := user{src: src, stmts: stmts, single: c.T.Bool(1, 2)}
		if u.single {
			k := c.T.Draw(len(stmts))
			u.stmts = stmts[k : k+1]
		}
		us = append(us, u)
	}
	if len(us) < 2 {
		res.Sig = "il-unparseable"
		return
	}
	alone := make([]string, len(us))
	for i, u := range us {
		simsync.ResetPools()
		alone[i] = c19Use(u.stmts, u.single)
	}
	simsync.ResetPools()
	every := []int{1, 1, 3, 17}[c.T.Draw(4)]
	got := make([]string, len(us))
	var tasks []*coTask
	for i := range us {
		i := i
		tasks = append(tasks, &coTask{name: fmt.Sprintf("user-%d", i), fn: func() { got[i] = c19Use(us[i].stmts, us[i].single) }})
	}
	s := runInterleaved(c.T, every, tasks)
	res.Sig = fmt.Sprintf("il|%d|%d|%s", len(us), every, kindSig(us[0].stmts))
	res.Nontrivial = s.Switches > 0
	if s.Switches > 0 {
		res.Probe("users_interleaved_inside_codec")
	}
	for i, tk := range tasks {
		what := ""
		switch {
		case tk.panicV != nil:
			what = fmt.Sprintf("crashed: %v at %s", tk.panicV, tk.stack)
		case got[i] != alone[i]:
			what = "got a different result: " + firstLineDiff(alone[i], got[i])
		}
		if what != "" {
			res.Violate("C19/independent-users", "C19/interleaved-users", fmt.Sprintf("%d independent users of the codec ran interleaved (%s, preemption every %d loop iterations); user %d %s\nsource of that user:\n%s", len(us), s, every, i, what, clipSrc(us[i].src)))
			break
		}
	}
	if c.Render {
		res.Rendering = map[string]any{"mode": "interleaved users", "users": len(us), "preempt_every_loop_iterations": every, "schedule": s.String()}
	}
}

// ---- deep nesting -------------------------------------------------------------
//
// A stream that, inside a valid statement, repeats one frame header 10³ to
// 9·10⁶ times: for a frame type the decoder descends into, that is nesting as
// deep, and a recursive decoder without a bound on its depth exhausts the
// goroutine stack — a fatal error no recover() sees (the worker dies; the driver
// re-runs the case alone and reports it). The frame type is drawn from all
// byte values, so no list of "recursive" types is mirrored from the codec.

var (
	deepOnce                sync.Once
	deepExprEnc, deepStmEnc []byte
	deepExprAt, deepStmAt   int
)

func deepTemplates() {
	deepOnce.Do(func() {
		v, err := parseSource("sub vcl_recv { set req.http.X = ((\"a\")); }")
		if err != nil {
			panic("c19: deep template does not parse: " + err.Error())
		}
		enc, err := codec.NewEncoder().Encode(v.Statements[0])
		if err != nil {
			panic("c19: deep template does not encode: " + err.Error())
		}
		deepExprEnc = append([]byte{}, enc...)
		// the grouped expression: the first frame after the operator's payload "="
		deepExprAt = bytes.Index(deepExprEnc, []byte{0, 1, '='}) + 3
		v, err = parseSource("sub vcl_recv { esi; }")
		if err != nil {
			panic("c19: deep template does not parse: " + err.Error())
		}
		sub := v.Statements[0].(*ast.SubroutineDeclaration)
		enc, err = codec.NewEncoder().Encode(sub)
		if err != nil {
			panic("c19: deep template does not encode: " + err.Error())
		}
		deepStmEnc = append([]byte{}, enc...)
		esi, err := codec.NewEncoder().Encode(sub.Block.Statements[0])
		if err != nil || len(esi) < 3 {
			panic("c19: deep template does not encode")
		}
		deepStmAt = bytes.Index(deepStmEnc, esi[:3])
		if deepExprAt <= 0 || deepStmAt <= 0 {
			panic("c19: deep templates: insertion points not found")
		}
	})
}

var deepFrameCounts = []int{1000, 499000, 600000, 3000000, 9000000}

func runC19Deep(c *worker.Ctx) {
	res := c.Res
	if c.T.Bool(1, 3) {
		// a deep tree the parser produced: the round trip, not only totality
		kind := deepKinds[c.T.Draw(len(deepKinds))]
		n := []int{150, 600, 2500}[c.T.Draw(3)] // (the tree comparison names every node by its path: quadratic in the depth)
		src := string(deepSource(kind, n, false))
		res.Sig = fmt.Sprintf("deep-roundtrip|%s|%d", kind, n)
		res.Nontrivial = true
		v, err := parseSource(src)
		if err != nil {
			res.Probe("deep_source_not_accepted_by_the_parser:" + kind)
			return
		}
		enc, err := codec.NewEncoder().Encodes(v.Statements)
		if err != nil {
			res.Violate("C19/roundtrip", "C19/roundtrip-error:deep:encode", fmt.Sprintf("%s nested %d levels does not encode: %v", kind, n, err))
			return
		}
		enc = append([]byte{}, enc...)
		got := decodeWith(enc, simio.Plan{Chunk: "all", Terminal: "eof"}, c)
		switch {
		case got.panicV != nil:
			res.Violate("C19/decode-total", "C19/decode-panic:deep:"+got.stack+":"+panicClass(got.panicV), fmt.Sprintf("decoder panicked on the encoding of %s nested %d levels: %v", kind, n, got.panicV))
		case got.err != nil:
			res.Violate("C19/roundtrip", "C19/roundtrip-error:deep:decode", fmt.Sprintf("the encoding (%d bytes) of %s nested %d levels — which the parser accepts — does not decode: %v", len(enc), kind, n, got.err))
		default:
			if d := astcmp.Diff(v.Statements, got.stmts); d != "" {
				res.Violate("C19/roundtrip", "C19/roundtrip:deep", fmt.Sprintf("%s nested %d levels decodes to a different tree: %s", kind, n, clipSrc(d)))
			} else {
				res.Probe("deep_tree_round_trip")
			}
		}
		return
	}
	deepTemplates()
	enc, at, ctx := deepExprEnc, deepExprAt, "expression"
	if c.T.Bool(1, 3) {
		enc, at, ctx = deepStmEnc, deepStmAt, "statement"
	}
	t := byte(c.T.Draw(256))
	if ctx == "expression" && c.T.Bool(1, 2) {
		t = enc[at] // the grouped expression's own type: known to nest
	}
	n := deepFrameCounts[c.T.Draw(len(deepFrameCounts))]
	closed := c.T.Bool(1, 2)
	data := make([]byte, 0, len(enc)+3*n)
	data = append(data, enc[:at]...)
	data = append(data, bytes.Repeat([]byte{t, 0, 0}, n)...)
	if closed {
		data = append(data, enc[at:]...)
	}
	res.Sig = fmt.Sprintf("deep|%s|%02x|%d|%v", ctx, t, n, closed)
	res.Nontrivial = true
	res.Fault("deep_frame_nesting")
	c.Logf("deep frames ctx=%s type=%02x n=%d closed=%v", ctx, t, n, closed)
	got := decodeWith(data, simio.Plan{Chunk: "all", Terminal: "eof"}, c)
	what := fmt.Sprintf("%d headers of frame type 0x%02x in %s position (%d bytes, rest of the statement %s)", n, t, ctx, len(data), map[bool]string{true: "follows", false: "missing"}[closed])
	switch {
	case got.panicV != nil:
		res.Violate("C19/decode-total", "C19/decode-panic:deep:"+got.stack+":"+panicClass(got.panicV), fmt.Sprintf("decoder panicked on %s: %v", what, got.panicV))
	case got.spin:
		res.Violate("C19/decode-total", "C19/decode-spin:deep", "decoder kept reading >1000 times after EOF on "+what)
	case got.err != nil:
		res.Probe("deep_stream_rejected_with_error")
	default:
		res.Probe("deep_stream_decoded")
	}
	if c.Render {
		res.Rendering = map[string]any{"mode": "deep frame nesting", "context": ctx, "frame_type": fmt.Sprintf("0x%02x", t), "headers": n, "bytes": len(data), "closed": closed, "decode_error": fmt.Sprint(got.err)}
	}
}

func runC19(c *worker.Ctx) {
	res := c.Res
	mode := c.T.Draw(5) // 0 round trip, 1 faulty decode, 2 plugin request path, 3 corpus cut, 4 interleaved users (thinned)
	if mode == 4 {
		switch k := c.T.Draw(3000); {
		case k < 500:
			runC19Interleaved(c)
			return
		case k == 2999:
			runC19Deep(c)
			return
		}
		mode = c.T.Draw(3)
	}
	if mode == 3 {
		c19CorpusCut(c)
		return
	}
	src, stmts := c19Statements(c)
	if len(stmts) == 0 {
		res.Sig = "unparseable"
		return
	}
	// Either the whole list (Encodes) or one statement (Encode), as the
	// plugin protocol does.
	var enc []byte
	var err error
	single := c.T.Bool(1, 2) || mode == 2
	if single {
		i := c.T.Draw(len(stmts))
		stmts = stmts[i : i+1]
	}
	func() {
		defer func() {
			if v := recover(); v != nil {
				res.Violate("C19/encode-panic", "C19/encode-panic:"+innermostFalcoFrame()+":"+panicClass(v), fmt.Sprintf("encoder panicked: %v\nsource:\n%s", v, clipSrc(src)))
				err = fmt.Errorf("panic")
			}
		}()
		var b []byte
		if single {
			b, err = codec.NewEncoder().Encode(stmts[0])
		} else {
			b, err = codec.NewEncoder().Encodes(stmts)
		}
		enc = append([]byte{}, b...) // Encodes returns pooled memory
	}()
	if len(res.Violations) > 0 {
		return
	}
	if err != nil {
		// every statement here came from the parser: the encoder must know it
		res.Violate("C19/encode-error", "C19/encode-error:"+errClass(err), fmt.Sprintf("encoder refused a parser-produced statement: %v\nsource:\n%s", err, clipSrc(src)))
		return
	}
	// Encoder history: what Encode/Encodes returned must not change when the
	// encoder is used again (a host may queue requests before shipping them).
	if c.T.Bool(1, 4) && len(res.Violations) == 0 {
		var held []byte
		// one encoder for all the calls, or a fresh one per call
		sameEncoder := c.T.Bool(1, 2)
		one := codec.NewEncoder()
		encoder := func() *codec.Encoder {
			if sameEncoder {
				return one
			}
			return codec.NewEncoder()
		}
		func() {
			defer func() { recover() }()
			if single {
				held, _ = encoder().Encode(stmts[0])
			} else {
				held, _ = encoder().Encodes(stmts)
			}
		}()
		snapshot := append([]byte{}, held...)
		func() {
			defer func() { recover() }()
			for _, it := range encCorpus()[:min(3, len(encCorpus()))] {
				encoder().Encode(it.Stmt)
				encoder().Encodes([]ast.Statement{it.Stmt, it.Stmt})
			}
			encoder().Encode(stmts[0])
		}()
		if !bytes.Equal(held, snapshot) {
			how := "Encode"
			if !single {
				how = "Encodes"
			}
			res.Violate("C19/roundtrip", "C19/encoding-aliased:"+how, fmt.Sprintf("the bytes returned by %s changed after later encoder calls (same Encoder value for all calls: %v; they alias reused memory): %d bytes, first difference at %d\nsource:\n%s", how, sameEncoder, len(held), firstDiff(held, snapshot), clipSrc(src)))
			return
		}
		res.Probe("encoding_rechecked_after_later_encodes")
	}
	c.Logf("mode=%d single=%v stmts=%d enc=%d", mode, single, len(stmts), len(enc))
	kindProbes(res, stmts)
	if len(enc) > 4096 {
		res.Probe("encoding_over_4096")
	}
	if len(enc) > 65535 {
		res.Probe("encoding_over_65535")
	}
	switch mode {
	case 0:
		c19RoundTrip(c, src, stmts, enc)
	case 1:
		c19Faulty(c, src, stmts, enc)
	case 2:
		c19Plugin(c, src, stmts[0], enc)
	}
}

func clipSrc(s string) string {
	if len(s) > 1500 {
		return s[:1500] + fmt.Sprintf("…(%d bytes)", len(s))
	}
	return s
}

func c19RoundTrip(c *worker.Ctx, src string, stmts []ast.Statement, enc []byte) {
	res := c.Res
	plan := simio.DrawPlan(c.T, len(enc), false)
	c.Logf("plan %s", plan)
	base := decodeWith(enc, simio.Plan{Chunk: "all", Terminal: "eof"}, c)
	got := decodeWith(enc, plan, c)
	res.Sig = "rt|" + kindSig(stmts) + "|" + plan.Chunk + fmt.Sprint(plan.Zeros)
	res.Nontrivial = !plan.Trivial()
	if got.shorts > 0 {
		res.Probe("short_reads_delivered")
	}
	if c.Render {
		res.Rendering = map[string]any{"mode": "roundtrip", "source": clipSrc(src), "encoded_bytes": len(enc), "plan": plan.String(), "reads": got.reads, "short_reads": got.shorts}
	}
	// R1 on the all-at-once delivery: the codec itself.
	c19CheckRT(c, "all", src, stmts, base)
	// R2 delivery invariance: whatever "all" yields, the plan must yield too.
	if len(res.Violations) == 0 && !plan.Trivial() {
		switch {
		case got.panicV != nil:
			res.Violate("C19/delivery", "C19/delivery-panic:"+got.stack+":"+panicClass(got.panicV), fmt.Sprintf("decoder panicked under %s: %v", plan, got.panicV))
		case got.spin:
			res.Violate("C19/delivery", "C19/delivery-spin", fmt.Sprintf("decoder kept reading after EOF under %s", plan))
		case (got.err == nil) != (base.err == nil):
			res.Violate("C19/delivery", "C19/delivery:short-read-misdecode", fmt.Sprintf("same bytes, delivery %s: err=%v; all-at-once: err=%v\nsource:\n%s", plan, got.err, base.err, clipSrc(src)))
		case got.err == nil:
			if d := astcmp.Diff(base.stmts, got.stmts); d != "" {
				res.Violate("C19/delivery", "C19/delivery:short-read-misdecode", fmt.Sprintf("same bytes decode differently under %s: %s", plan, d))
			}
		}
	}
	// R3 open stream: the peer keeps its end open after the message (a host
	// feeding a long-lived plugin, a socket). The message ends at its FIN
	// frame; a decoder that asks for one more byte never returns.
	if len(res.Violations) == 0 && base.err == nil {
		op := plan
		op.Terminal = "open"
		open := decodeWith(enc, op, c)
		switch {
		case open.blocked:
			res.Violate("C19/delivery", "C19/open-stream-blocks", fmt.Sprintf("the decoder read past the end of a complete %d-byte message (delivery %s) on a stream the peer keeps open: Decode never returns\nsource:\n%s", len(enc), op, clipSrc(src)))
		case open.panicV != nil:
			res.Violate("C19/delivery", "C19/delivery-panic:"+open.stack+":"+panicClass(open.panicV), fmt.Sprintf("decoder panicked under %s: %v", op, open.panicV))
		case open.err != nil:
			res.Violate("C19/delivery", "C19/delivery:short-read-misdecode", fmt.Sprintf("same bytes, delivery %s: err=%v; all-at-once: no error\nsource:\n%s", op, open.err, clipSrc(src)))
		default:
			if d := astcmp.Diff(base.stmts, open.stmts); d != "" {
				res.Violate("C19/delivery", "C19/delivery:short-read-misdecode", fmt.Sprintf("same bytes decode differently under %s: %s", op, d))
			}
		}
		res.Probe("open_stream_decoded")
	}
}

func c19CheckRT(c *worker.Ctx, how, src string, stmts []ast.Statement, got decodeOutcome) {
	res := c.Res
	switch {
	case got.panicV != nil:
		res.Violate("C19/roundtrip", "C19/roundtrip-panic:"+got.stack+":"+panicClass(got.panicV), fmt.Sprintf("decoding a valid encoding panicked: %v\nsource:\n%s", got.panicV, clipSrc(src)))
	case got.spin:
		res.Violate("C19/roundtrip", "C19/roundtrip-spin", "decoder kept reading after EOF on a valid encoding\nsource:\n"+clipSrc(src))
	case got.err != nil:
		res.Violate("C19/roundtrip", "C19/roundtrip-error:"+c19Culprit(stmts), fmt.Sprintf("valid encoding rejected: %v\nsource:\n%s", got.err, clipSrc(src)))
	default:
		if d := astcmp.Diff(stmts, got.stmts); d != "" {
			res.Violate("C19/roundtrip", "C19/roundtrip:"+normPath(d), fmt.Sprintf("decoded tree differs: %s\nsource:\n%s", d, clipSrc(src)))
		}
	}
}

// c19Culprit finds the smallest construct that makes a valid encoding
// undecodable, by re-encoding each statement (and nested statement) alone.
// It yields a specific, stable key such as "ErrorStatement" or "String:len=0".
func c19Culprit(stmts []ast.Statement) string {
	var culprit string
	var visit func(s ast.Statement) bool
	try := func(s ast.Statement) bool {
		ok := true
		func() {
			defer func() {
				if recover() != nil {
					ok = false
				}
			}()
			b, err := codec.NewEncoder().Encode(s)
			if err != nil {
				ok = false
				return
			}
			b = append([]byte{}, b...)
			r := simio.NewReader(b, simio.Plan{Chunk: "all", Terminal: "eof"}, nil)
			r.SpinLimit = 1000
			if _, err := codec.NewDecoder(r).Decode(); err != nil {
				ok = false
			}
		}()
		return ok
	}
	encodable := func(s ast.Statement) (ok bool) {
		defer func() {
			if recover() != nil {
				ok = true // it is known to the encoder (and crashes it)
			}
		}()
		_, err := codec.NewEncoder().Encode(s)
		return err == nil
	}
	visit = func(s ast.Statement) bool {
		if !encodable(s) {
			// not a top-level node of the codec (SwitchControl, ElseStatement …): descend
			for _, ch := range childStatements(s) {
				if visit(ch) {
					return true
				}
			}
			return false
		}
		if try(s) {
			return false
		}
		// failing: look for a failing child first
		for _, ch := range childStatements(s) {
			if visit(ch) {
				return true
			}
		}
		culprit = fmt.Sprintf("%T", s)
		culprit = strings.TrimPrefix(culprit, "*ast.") + c19Attr(s)
		return true
	}
	for _, s := range stmts {
		if visit(s) {
			return culprit
		}
	}
	return "whole-list"
}

func c19Attr(s ast.Statement) string {
	m := astcmp.Kinds(s)
	var attrs []string
	if hasEmptyString(s) {
		attrs = append(attrs, "empty-string")
	}
	if hasBigString(s) {
		attrs = append(attrs, "string>65535")
	}
	_ = m
	if len(attrs) == 0 {
		return ""
	}
	return "(" + strings.Join(attrs, ",") + ")"
}

func c19Plugin(c *worker.Ctx, src string, stmt ast.Statement, enc []byte) {
	res := c.Res
	faults := c.T.Bool(1, 2)
	data := enc
	var what string
	if faults && c.T.Bool(1, 2) {
		data, what = simio.Corrupt(c.T, enc)
		res.Fault("corrupt")
	}
	plan := simio.DrawPlan(c.T, len(data), faults)
	if plan.Terminal != "eof" {
		res.Fault("stream_" + plan.Terminal)
	}
	c.Logf("plugin plan %s corrupt=%s", plan, what)
	res.Sig = "pl|" + kindSig([]ast.Statement{stmt}) + "|" + plan.Chunk + plan.Terminal + fmt.Sprint(what != "")
	res.Nontrivial = !plan.Trivial() || what != ""
	r := simio.NewReader(data, plan, c.T)
	r.SpinLimit = 1000
	var got ast.Statement
	var err error
	var pv any
	var spin bool
	var stack string
	func() {
		defer func() {
			if v := recover(); v != nil {
				if v == simio.SpinSentinel {
					spin = true
					return
				}
				pv = v
				stack = innermostFalcoFrame()
			}
		}()
		got, err = readLinterRequest(stmt, r)
	}()
	if c.Render {
		res.Rendering = map[string]any{"mode": "plugin-request", "source": clipSrc(src), "statement": fmt.Sprintf("%T", stmt), "plan": plan.String(), "corruption": what, "error": fmt.Sprint(err)}
	}
	intact := what == "" && plan.Terminal == "eof"
	switch {
	case pv != nil:
		k := "C19/plugin-panic:"
		if intact {
			k = "C19/plugin-roundtrip-panic:"
		}
		res.Violate("C19/plugin", k+stack+":"+panicClass(pv), fmt.Sprintf("ReadLinterRequest panicked (%s, %s): %v", plan, what, pv))
	case spin:
		res.Violate("C19/plugin", "C19/decode-spin", fmt.Sprintf("ReadLinterRequest kept reading after the stream ended (%s, %s)", plan, what))
	case intact && err != nil:
		// covered by round-trip oracles when delivery is trivial; under a
		// non-trivial plan this is the short-read defect.
		base := decodeWith(enc, simio.Plan{Chunk: "all", Terminal: "eof"}, c)
		if base.err == nil && base.panicV == nil {
			res.Violate("C19/delivery", "C19/delivery:short-read-misdecode", fmt.Sprintf("plugin request undecodable under %s although the bytes are valid: %v", plan, err))
		} else {
			res.Violate("C19/roundtrip", "C19/roundtrip-error:"+c19Culprit([]ast.Statement{stmt}), fmt.Sprintf("valid request rejected: %v\nsource:\n%s", err, clipSrc(src)))
		}
	case intact:
		if d := astcmp.Diff(stmt, got); d != "" {
			base := decodeWith(enc, simio.Plan{Chunk: "all", Terminal: "eof"}, c)
			if base.err == nil && len(base.stmts) > 0 && astcmp.Diff(stmt, base.stmts[0]) == "" {
				res.Violate("C19/delivery", "C19/delivery:short-read-misdecode", fmt.Sprintf("plugin saw a different statement under %s: %s", plan, d))
			} else {
				res.Violate("C19/roundtrip", "C19/roundtrip:"+normPath(d), fmt.Sprintf("plugin saw a different statement: %s\nsource:\n%s", d, clipSrc(src)))
			}
		}
	}
}

func c19Faulty(c *worker.Ctx, src string, stmts []ast.Statement, enc []byte) {
	res := c.Res
	data := enc
	var what string
	switch c.T.Draw(8) {
	case 0:
		what = "cut-only"
	case 1, 2:
		data, what = simio.Corrupt(c.T, enc)
	case 3:
		// splice: prefix of one encoding + suffix of another (here: itself, shifted)
		i, j := c.T.Draw(len(enc)+1), c.T.Draw(len(enc)+1)
		data = append(append([]byte{}, enc[:i]...), enc[j:]...)
		what = fmt.Sprintf("splice[:%d]+[%d:]", i, j)
	case 4:
		n := 1 + c.T.Draw(8)
		g := make([]byte, n)
		for i := range g {
			g[i] = byte(c.T.Draw(256))
		}
		data = append(append([]byte{}, enc...), g...)
		what = fmt.Sprintf("trailing-garbage+%d", n)
	case 5:
		data = nil
		what = "empty-stream"
	case 6:
		// corrupt a frame length field: find a plausible header by decoding
		// nothing — pick a position and overwrite two bytes.
		data = append([]byte{}, enc...)
		if len(data) >= 3 {
			p := 1 + c.T.Draw(len(data)-2)
			data[p] = byte(c.T.Draw(256))
			data[p+1] = byte(c.T.Draw(256))
			what = fmt.Sprintf("len-edit@%d", p)
		}
	default:
		// drop the trailing FIN / END markers
		k := 1 + c.T.Draw(3)
		if k > len(enc) {
			k = len(enc)
		}
		data = enc[:len(enc)-k]
		what = fmt.Sprintf("drop-tail-%d", k)
	}
	plan := simio.DrawPlan(c.T, len(data), true)
	if what == "cut-only" && plan.Terminal == "eof" {
		plan.Terminal = "cut"
		plan.CutAt = c.T.Draw(len(data) + 1)
	}
	res.Fault("enc_" + strings.SplitN(strings.SplitN(what, "@", 2)[0], "[", 2)[0])
	if plan.Terminal != "eof" {
		res.Fault("stream_" + plan.Terminal)
	}
	c.Logf("fault %s plan %s", what, plan)
	got := decodeWith(data, plan, c)
	res.Sig = "ft|" + kindSig(stmts) + "|" + strings.SplitN(what, "@", 2)[0] + "|" + plan.Terminal + "|" + fmt.Sprint(got.err != nil)
	res.Nontrivial = true
	if c.Render {
		res.Rendering = map[string]any{"mode": "faulty-decode", "source": clipSrc(src), "encoded_bytes": len(enc), "fault": what, "plan": plan.String(), "decode_error": fmt.Sprint(got.err), "statements_decoded": len(got.stmts)}
	}
	switch {
	case got.panicV != nil:
		res.Violate("C19/decode-total", "C19/decode-panic:"+got.stack+":"+panicClass(got.panicV), fmt.Sprintf("decoder panicked on %s under %s: %v\nbytes=%x", what, plan, got.panicV, clipBytes(data)))
	case got.spin:
		res.Violate("C19/decode-total", "C19/decode-spin", fmt.Sprintf("decoder kept reading >1000 times after the stream ended (%s under %s)\nbytes=%x", what, plan, clipBytes(data)))
	}
	if got.err != nil {
		res.Probe("decode_error_returned")
	} else {
		res.Probe("decode_ok_on_faulty_input")
	}
}

func clipBytes(b []byte) []byte {
	if len(b) > 256 {
		return b[:256]
	}
	return b
}

func hasEmptyString(s ast.Statement) bool {
	found := false
	walkStrings(s, func(v string) {
		if v == "" {
			found = true
		}
	})
	return found
}
func hasBigString(s ast.Statement) bool {
	found := false
	walkStrings(s, func(v string) {
		if len(v) > 65535 {
			found = true
		}
	})
	return found
}

var _ = bytes.Equal
var _ = plugin.ERROR

// c19CorpusCut: a corpus statement's encoding cut at an exact offset — the
// sub-space that the thorough tier enumerates completely.
func c19CorpusCut(c *worker.Ctx) {
	res := c.Res
	items := encCorpus()
	if len(items) == 0 {
		res.Sig = "nocorpus"
		return
	}
	it := items[c.T.Draw(len(items))]
	k := c.T.Draw(len(it.Enc) + 1)
	ci := c.T.Draw(7) // the enumerated sub-space forces 0 here
	if ci >= 5 {
		// the complete encoding, chunked: the round trip of a corpus statement
		k, ci = len(it.Enc), []int{1, 3}[ci-5]
	}
	chunk := []string{"all", "1", "half", "rand", "3"}[ci]
	plan := simio.Plan{Chunk: chunk, Terminal: "cut", CutAt: k}
	if k == len(it.Enc) {
		plan.Terminal = "eof"
	}
	c.Logf("corpus-cut %s k=%d/%d chunk=%s", it.Name, k, len(it.Enc), chunk)
	got := decodeWith(it.Enc, plan, c)
	res.Fault("stream_cut")
	res.Nontrivial = true
	res.Sig = fmt.Sprintf("cut|%s|%T|%d|%s", it.Name, it.Stmt, k, chunk)
	if c.Render {
		res.Rendering = map[string]any{"mode": "corpus-cut", "source": it.Name, "statement": fmt.Sprintf("%T", it.Stmt), "encoded_bytes": len(it.Enc), "cut_at": k, "chunk": chunk, "decode_error": fmt.Sprint(got.err)}
	}
	switch {
	case got.panicV != nil:
		res.Violate("C19/decode-total", "C19/decode-panic:"+got.stack+":"+panicClass(got.panicV), fmt.Sprintf("decoder panicked on %s (%T) cut at %d of %d: %v", it.Name, it.Stmt, k, len(it.Enc), got.panicV))
	case got.spin:
		res.Violate("C19/decode-total", "C19/decode-spin", fmt.Sprintf("decoder kept reading >1000 times after EOF: %s (%T) cut at %d of %d", it.Name, it.Stmt, k, len(it.Enc)))
	}
	if got.err != nil {
		res.Probe("decode_error_returned")
	}
	// A strict prefix has lost part of the message. A reader may be lenient
	// about what it lost (a missing final FIN byte, say) — but if it reports
	// success, what it hands over must be the statement that was sent, not
	// another, shorter one.
	if k == len(it.Enc) && got.panicV == nil && !got.spin {
		// nothing was lost: this is the round trip of a statement of falco's own
		// sources (and the hand-written ones), whatever the chunking.
		if got.err != nil {
			res.Violate("C19/roundtrip", "C19/corpus-roundtrip:decode-error:"+fmt.Sprintf("%T", it.Stmt), fmt.Sprintf("the complete encoding of %s (%T, %d bytes), delivered %s, does not decode: %v", it.Name, it.Stmt, len(it.Enc), chunk, got.err))
		} else if d := astcmp.Diff([]ast.Statement{it.Stmt}, got.stmts); d != "" {
			res.Violate("C19/roundtrip", "C19/corpus-roundtrip:"+fmt.Sprintf("%T", it.Stmt), fmt.Sprintf("the complete encoding of %s (%T, %d bytes), delivered %s, decodes to a different statement: %s", it.Name, it.Stmt, len(it.Enc), chunk, d))
		} else {
			res.Probe("corpus_statement_round_trip")
		}
	}
	if k < len(it.Enc) && got.err == nil && got.panicV == nil && !got.spin {
		if d := astcmp.Diff([]ast.Statement{it.Stmt}, got.stmts); d != "" {
			res.Violate("C19/roundtrip", "C19/truncated-decodes-to-another-statement:"+fmt.Sprintf("%T", it.Stmt), fmt.Sprintf("the encoding of %s (%T, %d bytes) cut after %d bytes decodes WITHOUT an error to a different statement: %s", it.Name, it.Stmt, len(it.Enc), k, d))
		} else {
			res.Probe("lenient_decode_of_prefix_equal_to_original")
		}
	}
}

func firstDiff(a, b []byte) int {
	for i := 0; i < len(a) && i < len(b); i++ {
		if a[i] != b[i] {
			return i
		}
	}
	return min(len(a), len(b))
}
