package sched

import (
	"bufio"
	"bytes"
	"encoding/json"
	"fmt"
	"net/http"
	"net/url"
	"runtime"
	"sort"
	"strings"
	"testing"
	"testing/synctest"
	"time"

	"github.com/anishathalye/porcupine"

	ssched "falcosim/sim/sched"
	"falcosim/sim/simfs"
	"falcosim/sim/simhook"
	"falcosim/sim/simnet"
	"falcosim/sim/worker"

	"github.com/ysugimoto/falco/v2/ast"
	"github.com/ysugimoto/falco/v2/interpreter"
	icontext "github.com/ysugimoto/falco/v2/interpreter/context"
)

// ---------------------------------------------------------------------------
// C18 part A — concurrent requests against one simulator are serialisable.
//
// One real interpreter (built with the overlay: cooperative lock, yields at
// subroutine entries), N client tasks, a simulated origin whose round trips
// are scheduling points. The scheduler releases one parked task per
// quiescence, chosen by the tape. The recorded history is checked with
// porcupine against M18, a sequential model of family K.
// ---------------------------------------------------------------------------

const familyK = `
backend F_origin { .host = "origin.test"; .port = "80"; .first_byte_timeout = 5s; }
ratecounter rc_a {}
sub vcl_recv {
  set req.backend = F_origin;
  if (req.http.X-Flow) { set req.http.X-Flow = req.http.X-Flow ">recv"; } else { set req.http.X-Flow = "recv"; }
  declare local var.n INTEGER;
  declare local var.d INTEGER;
  set var.d = std.atoi(req.http.X-Delta);
  set var.n = ratelimit.ratecounter_increment(rc_a, "k", var.d);
  set req.http.X-Count = ratecounter.rc_a.bucket.60s;
  log "recv " req.http.X-Marker;
  if (req.http.X-Mode == "pass") { return(pass); }
  if (req.http.X-Mode == "error") { error 700 "e"; }
  if (req.http.X-Mode == "restart" && req.restarts < 2) { restart; }
  return(lookup);
}
sub vcl_hash {
  if (req.http.X-Flow) { set req.http.X-Flow = req.http.X-Flow ">hash"; } else { set req.http.X-Flow = "hash"; }
  log "hash " req.http.X-Marker;
}
sub vcl_hit {
  if (req.http.X-Flow) { set req.http.X-Flow = req.http.X-Flow ">hit"; } else { set req.http.X-Flow = "hit"; }
  log "hit " req.http.X-Marker;
}
sub vcl_miss {
  if (req.http.X-Flow) { set req.http.X-Flow = req.http.X-Flow ">miss"; } else { set req.http.X-Flow = "miss"; }
  log "miss " req.http.X-Marker;
}
sub vcl_pass {
  if (req.http.X-Flow) { set req.http.X-Flow = req.http.X-Flow ">pass"; } else { set req.http.X-Flow = "pass"; }
  log "pass " req.http.X-Marker;
}
sub vcl_fetch {
  if (req.http.X-Flow) { set req.http.X-Flow = req.http.X-Flow ">fetch"; } else { set req.http.X-Flow = "fetch"; }
  set beresp.ttl = %TTL%;
  set beresp.cacheable = true;
  log "fetch " req.http.X-Marker;
}
sub vcl_error {
  if (req.http.X-Flow) { set req.http.X-Flow = req.http.X-Flow ">error"; } else { set req.http.X-Flow = "error"; }
  set obj.http.X-Err-Marker = req.http.X-Marker;
  log "error " req.http.X-Marker;
}
sub vcl_deliver {
  set resp.http.X-Marker = req.http.X-Marker;
  set resp.http.X-Count = req.http.X-Count;
  if (req.http.X-Dbg) { set resp.http.X-Dbg-Marker = req.http.X-Marker; }
  set resp.http.X-Flow = req.http.X-Flow ">deliver>log";
  set resp.http.X-Restarts = req.restarts;
  log "deliver " req.http.X-Marker;
}
sub vcl_log {
  log "log " req.http.X-Marker;
}
`

type kInput struct {
	Mode   string // lookup | pass | error | restart
	Key    string // URL
	Delta  int
	Marker string
	Dbg    bool // the request asks for a debug header (set conditionally in vcl_deliver: no other request's response may carry it)
	Slot   int  // timed cases: the request is sent at Slot × 10 s of simulated time (objects live 25 s)
}

type kOutput struct {
	Branch    string // hit | miss | pass | error
	OriginSaw string // marker of the request that populated the delivered object ("" on error)
	Count     int
	Restarts  int
	Flow      string
}

type kState struct {
	Count int
	Cache string // "key=marker;key=marker" sorted
}

func cacheGet(c, key string) (marker string, slot int, ok bool) {
	for _, kv := range strings.Split(c, ";") {
		if k, v, found := strings.Cut(kv, "="); found && k == key {
			m, sl, _ := strings.Cut(v, "@")
			fmt.Sscanf(sl, "%d", &slot)
			return m, slot, true
		}
	}
	return "", 0, false
}

func cachePut(c, key, marker string, slot int) string {
	var parts []string
	for _, kv := range strings.Split(c, ";") {
		if k, _, ok := strings.Cut(kv, "="); ok && k != key {
			parts = append(parts, kv)
		}
	}
	parts = append(parts, fmt.Sprintf("%s=%s@%d", key, marker, slot))
	sort.Strings(parts)
	return strings.Join(parts, ";")
}

// liveSlots: an object stored in slot g (at g×10 s + at most 4 s) with a TTL
// of 25 s is unexpired for lookups in slots g, g+1 and g+2 and expired from
// g+3 on, with at least a second of margin on both sides.
const liveSlots = 2

// m18 is the sequential meaning of one family-K request. Whether the object
// fetched on the pass path is stored is the simulator's choice (Fastly does
// not keep it, falco does): passStores selects the variant, and a history is
// accepted when either variant explains all of it.
func m18(st kState, in kInput, passStores bool) (kState, kOutput) {
	out := kOutput{}
	passes := 1
	if in.Mode == "restart" {
		passes = 3
		out.Restarts = 2
	}
	st.Count += passes * in.Delta
	out.Count = st.Count
	pre := strings.Repeat("recv>", passes-1)
	switch in.Mode {
	case "error":
		out.Branch, out.Flow = "error", pre+"recv>error>deliver>log"
	case "pass":
		out.Branch, out.OriginSaw, out.Flow = "pass", in.Marker, pre+"recv>hash>pass>fetch>deliver>log"
		if passStores {
			st.Cache = cachePut(st.Cache, in.Key, in.Marker, in.Slot)
		}
	default:
		if m, g, ok := cacheGet(st.Cache, in.Key); ok && in.Slot-g <= liveSlots {
			out.Branch, out.OriginSaw, out.Flow = "hit", m, pre+"recv>hash>hit>deliver>log"
		} else {
			out.Branch, out.OriginSaw, out.Flow = "miss", in.Marker, pre+"recv>hash>miss>fetch>deliver>log"
			st.Cache = cachePut(st.Cache, in.Key, in.Marker, in.Slot)
		}
	}
	return st, out
}

func kModelFor(passStores bool) porcupine.Model {
	return porcupine.Model{
		Init: func() interface{} { return kState{} },
		Step: func(state, input, output interface{}) (bool, interface{}) {
			ns, want := m18(state.(kState), input.(kInput), passStores)
			return want == output.(kOutput), ns
		},
		DescribeOperation: func(input, output interface{}) string {
			return fmt.Sprintf("%+v -> %+v", input, output)
		},
	}
}

// checkHistory: the history is serialisable when one of the two pass-path
// variants of M18 explains all of it.
func checkHistory(ops []porcupine.Operation) porcupine.CheckResult {
	v := porcupine.CheckOperationsTimeout(kModelFor(true), ops, 20*time.Second)
	if v != porcupine.Illegal {
		return v
	}
	return porcupine.CheckOperationsTimeout(kModelFor(false), ops, 20*time.Second)
}

func vclK(ttl string) string { return strings.Replace(familyK, "%TTL%", ttl, 1) }

// epoch is the simulated time every bubble starts at.
var epoch = time.Date(2000, 1, 1, 0, 0, 0, 0, time.UTC)

type silentDebugger struct{}

func (silentDebugger) Run(ast.Node) interpreter.DebugState { return interpreter.DebugPass }
func (silentDebugger) Message(string)                      {}
func (silentDebugger) Log(*ast.LogStatement, string)       {}

type procJSON struct {
	Flows []struct {
		Subroutine string `json:"subroutine"`
	} `json:"flows"`
	Logs []struct {
		Message string `json:"message"`
	} `json:"logs"`
	Restarts       int    `json:"restarts"`
	Cached         bool   `json:"cached"`
	Error          string `json:"error"`
	ClientResponse struct {
		StatusCode int               `json:"status_code"`
		Headers    map[string]string `json:"headers"`
	} `json:"client_response"`
}

type clientResult struct {
	in       kInput
	call     int64
	ret      int64
	returned bool
	panicV   any
	stack    string
	code     int
	raw      []byte
	proc     *procJSON
	out      kOutput
	isoErr   string
	t0, t1   time.Time // simulated time at call and return
	proxy    bool      // proxy-response mode: raw holds the bytes written to the connection
	unsent   bool      // the connection was never closed (no response reached the client)
	ffSteps  int       // scheduling points the client waited for its response after ServeHTTP returned
}

func innermostFalcoFrame(skip int) string {
	pcs := make([]uintptr, 96)
	n := runtime.Callers(skip, pcs)
	frames := runtime.CallersFrames(pcs[:n])
	for {
		f, more := frames.Next()
		if strings.Contains(f.Function, "ysugimoto/falco/v2/") {
			return f.Function[strings.Index(f.Function, "falco/v2/")+len("falco/v2/"):]
		}
		if !more {
			break
		}
	}
	return "?"
}

func bubble(tb *testing.T, f func()) (event string) {
	defer func() {
		if v := recover(); v != nil {
			s := fmt.Sprint(v)
			switch {
			case strings.Contains(s, "blocked goroutines") || strings.Contains(s, "main bubble goroutine has exited"):
				event = "leak: " + s
			case strings.Contains(s, "deadlock"):
				event = "deadlock: " + s
			default:
				event = "panic: " + s
			}
		}
	}()
	synctest.Test(tb, func(t *testing.T) { f() })
	return ""
}

// decodeProxy reads what falco wrote to the client's connection in
// proxy-response mode: the real response, whose headers carry the same
// observations the process report gives in the default mode.
func decodeProxy(r *clientResult) {
	if r.unsent || len(r.raw) == 0 {
		r.isoErr = "no response was written to the client's connection"
		return
	}
	resp, err := http.ReadResponse(bufio.NewReader(bytes.NewReader(r.raw)), nil)
	if err != nil {
		r.isoErr = fmt.Sprintf("the bytes on the client's connection are not an HTTP response: %v (%q)", err, clip(string(r.raw), 120))
		return
	}
	r.proc = &procJSON{}
	h := resp.Header
	o := kOutput{Flow: h.Get("X-Flow")}
	fmt.Sscanf(h.Get("X-Count"), "%d", &o.Count)
	fmt.Sscanf(h.Get("X-Restarts"), "%d", &o.Restarts)
	flow := o.Flow
	switch {
	case strings.Contains(flow, "error"):
		o.Branch = "error"
	case strings.Contains(flow, "hit"):
		o.Branch = "hit"
	case strings.Contains(flow, "pass"):
		o.Branch = "pass"
	case strings.Contains(flow, "miss"):
		o.Branch = "miss"
	}
	if o.Branch != "error" {
		o.OriginSaw = h.Get("X-Origin-Saw")
	}
	r.out = o
	if got := h.Get("X-Marker"); got != r.in.Marker {
		r.isoErr = fmt.Sprintf("response header X-Marker=%q but the request sent %q", got, r.in.Marker)
		return
	}
	if e := dbgIso(r, h.Get("X-Dbg-Marker")); e != "" {
		r.isoErr = e
		return
	}
	if o.Branch == "error" {
		if got := h.Get("X-Err-Marker"); got != r.in.Marker {
			r.isoErr = fmt.Sprintf("error object carries marker %q, own marker %s", got, r.in.Marker)
		}
	}
}

// dbgIso: the debug header is only set for a request that asks for it, and
// then with that request's marker.
func dbgIso(r *clientResult, got string) string {
	switch {
	case r.in.Dbg && got != r.in.Marker:
		return fmt.Sprintf("response header X-Dbg-Marker=%q for a request that asked for it with marker %q", got, r.in.Marker)
	case !r.in.Dbg && got != "":
		return fmt.Sprintf("response header X-Dbg-Marker=%q although this request (marker %s) did not ask for the debug header: it is another request's", got, r.in.Marker)
	}
	return ""
}

func decode(r *clientResult) {
	if r.proxy {
		decodeProxy(r)
		return
	}
	var pj procJSON
	if json.Unmarshal(r.raw, &pj) != nil || pj.Flows == nil {
		return
	}
	r.proc = &pj
	var fl []string
	for _, f := range pj.Flows {
		if strings.HasPrefix(f.Subroutine, "vcl_") {
			fl = append(fl, strings.TrimPrefix(f.Subroutine, "vcl_"))
		}
	}
	flow := strings.Join(fl, ">")
	o := kOutput{Flow: flow, Restarts: pj.Restarts}
	fmt.Sscanf(pj.ClientResponse.Headers["x-count"], "%d", &o.Count)
	switch {
	case strings.Contains(flow, "error"):
		o.Branch = "error"
	case strings.Contains(flow, "hit"):
		o.Branch = "hit"
	case strings.Contains(flow, "pass"):
		o.Branch = "pass"
	case strings.Contains(flow, "miss"):
		o.Branch = "miss"
	}
	if o.Branch != "error" {
		o.OriginSaw = pj.ClientResponse.Headers["x-origin-saw"]
	}
	r.out = o
	// isolation invariants, checked directly: a response mentions only its own request
	if pj.Error != "" {
		r.isoErr = "reported error: " + pj.Error
		return
	}
	if got := pj.ClientResponse.Headers["x-marker"]; got != r.in.Marker {
		r.isoErr = fmt.Sprintf("response header X-Marker=%q but the request sent %q", got, r.in.Marker)
		return
	}
	if e := dbgIso(r, pj.ClientResponse.Headers["x-dbg-marker"]); e != "" {
		r.isoErr = e
		return
	}
	for _, l := range pj.Logs {
		f := strings.Fields(l.Message)
		if len(f) == 2 && f[1] != r.in.Marker {
			r.isoErr = fmt.Sprintf("log line %q belongs to another request (own marker %s)", l.Message, r.in.Marker)
			return
		}
	}
	if o.Branch == "error" {
		if got := pj.ClientResponse.Headers["x-err-marker"]; got != r.in.Marker {
			r.isoErr = fmt.Sprintf("error object carries marker %q, own marker %s", got, r.in.Marker)
		}
	}
}

func runPartA(c *worker.Ctx) {
	res := c.Res
	maxN := 6
	if c.Tier == "thorough" {
		maxN = 16
	}
	n := 2 + c.T.Draw(maxN-1)
	validate := c.T.Bool(1, 8) // model-validation case: strictly one at a time
	keys := []string{"/k1", "/k2"}
	modes := []string{"lookup", "lookup", "lookup", "pass", "error", "restart"}
	var ins []kInput
	for i := 0; i < n; i++ {
		ins = append(ins, kInput{Mode: modes[c.T.Draw(len(modes))], Key: keys[c.T.Draw(len(keys))], Delta: 1 + c.T.Draw(3), Marker: fmt.Sprintf("m%d", i), Dbg: c.T.Bool(1, 4)})
	}
	faulty := c.T.Bool(1, 4)
	// timed case: requests are sent in 10-second slots and objects live 25 s,
	// so that objects expire, are fetched again and replaced during the case.
	// Never a model-validation case: what a stored object's lifetime is follows
	// from the VCL (beresp.ttl), it is not a choice of the simulator.
	timed := !validate && c.T.Bool(1, 3)
	ttl := "3600s"
	if timed {
		ttl = "25s"
		for i := range ins {
			ins[i].Slot = c.T.Draw(5)
		}
	}
	proxy := c.T.Bool(1, 4) // proxy-response mode (falco simulate -proxy): the real response goes to the client's connection
	results := make([]*clientResult, n)
	var probes []*clientResult
	var s *ssched.Sched
	var stamp int64
	var origin *simnet.Origin
	overlapped := false
	ev := bubble(c.TB, func() {
		s = ssched.New(c.T)
		s.KeepTrace = c.Render
		store := simfs.New(vclK(ttl), nil)
		opts := []icontext.Option{icontext.WithResolver(store)}
		if proxy {
			opts = append(opts, icontext.WithActualResponse(true))
		}
		interp := interpreter.New(opts...)
		interp.Debugger = silentDebugger{}
		origin = simnet.NewOrigin(func(req *http.Request, k int) simnet.Behaviour {
			b := simnet.Behaviour{Kind: "ok", Status: 200, Header: http.Header{"X-Origin-Saw": {req.Header.Get("X-Marker")}}, Body: []byte("b"), BodyErrAfter: -1,
				Latency: time.Duration(c.T.Draw(300)) * time.Millisecond}
			if faulty && c.T.Bool(1, 6) {
				b.Kind, b.Latency = "slow", time.Duration(1+c.T.Draw(3))*time.Second
			}
			return b
		})
		origin.S = s
		old := http.DefaultTransport
		http.DefaultTransport = origin
		defer func() { http.DefaultTransport = old }()
		simhook.Install(s)
		defer simhook.Uninstall()

		serve := func(r *clientResult) {
			u, _ := url.Parse(r.in.Key)
			req := &http.Request{Method: "GET", URL: u, Host: "example.test", Proto: "HTTP/1.1", ProtoMajor: 1, ProtoMinor: 1, RemoteAddr: "192.0.2.10:4000", RequestURI: r.in.Key, Body: http.NoBody,
				Header: http.Header{"X-Marker": {r.in.Marker}, "X-Mode": {r.in.Mode}, "X-Delta": {fmt.Sprint(r.in.Delta)}}}
			if r.in.Dbg {
				req.Header.Set("X-Dbg", "1")
			}
			rw := simnet.NewHijackRecorder()
			r.proxy = proxy
			if r.in.Slot > 0 {
				if d := time.Until(epoch.Add(time.Duration(r.in.Slot) * 10 * time.Second)); d > 0 {
					s.Sleep("think", r.in.Marker, d)
				}
			}
			stamp++
			r.call, r.t0 = stamp, time.Now()
			func() {
				defer func() {
					if v := recover(); v != nil {
						r.panicV, r.stack = v, innermostFalcoFrame(3)
					}
				}()
				interp.ServeHTTP(rw, req)
				r.returned = true
			}()
			// The client has its response when its connection is closed. A
			// handler that returned without closing it leaves the client
			// waiting: it keeps yielding while other tasks run.
			for rw.Hijacked && !rw.Closed() && r.ffSteps < 400 && r.panicV == nil {
				r.ffSteps++
				simhook.Yield("client-awaits-response")
			}
			stamp++
			r.ret, r.t1 = stamp, time.Now()
			if rw.Hijacked {
				r.unsent = !rw.Closed()
				r.code, r.raw = 0, rw.Wire()
			} else {
				r.code, r.raw = rw.Code(), append([]byte{}, rw.Body()...)
				if proxy {
					// falco fell back to the plain ResponseWriter: rebuild the wire form
					var b bytes.Buffer
					fmt.Fprintf(&b, "HTTP/1.1 %d X\r\n", rw.Code())
					rw.Header().Write(&b)
					b.WriteString("\r\n")
					b.Write(rw.Body())
					r.raw = b.Bytes()
				}
			}
		}
		done := make(chan struct{}, n)
		go s.Run()
		if validate {
			// one at a time: the schedule cannot matter; M18 must agree exactly
			for i := range ins {
				i := i
				results[i] = &clientResult{in: ins[i]}
				s.Go(fmt.Sprintf("client-%d", i), func() { serve(results[i]); done <- struct{}{} })
				<-done
			}
		} else {
			for i := range ins {
				i := i
				results[i] = &clientResult{in: ins[i]}
				s.Go(fmt.Sprintf("client-%d", i), func() { serve(results[i]); done <- struct{}{} })
			}
			for range ins {
				<-done
			}
		}
		// final-state probes, after everyone returned
		if s.Deadlock == "" {
			probeSlot := 0
			if timed {
				probeSlot = int(time.Since(epoch)/(10*time.Second)) + 1
			}
			for _, k := range keys {
				p := &clientResult{in: kInput{Mode: "lookup", Key: k, Delta: 0, Marker: "probe" + k[1:], Slot: probeSlot}}
				probes = append(probes, p)
				s.Go("probe", func() { serve(p); done <- struct{}{} })
				<-done
			}
		}
		s.Stop()
		res.SimSeconds += time.Since(time.Date(2000, 1, 1, 0, 0, 0, 0, time.UTC)).Seconds()
	})
	simhook.Uninstall()
	for k, v := range s.Releases {
		res.Probes = addProbe(res.Probes, "release:"+k, v)
	}
	all := append(append([]*clientResult{}, results...), probes...)
	for _, r := range all {
		if r != nil {
			decode(r)
		}
	}
	for i, a := range results {
		for j, b := range results {
			if i < j && a != nil && b != nil && a.call < b.ret && b.call < a.ret {
				overlapped = true
			}
		}
	}
	if origin != nil {
		for k, v := range origin.Fired {
			for x := 0; x < v; x++ {
				res.Fault("origin:" + k)
			}
		}
	}
	desc := func() string {
		var b strings.Builder
		for _, r := range all {
			if r == nil {
				continue
			}
			fmt.Fprintf(&b, "  [%d,%d] %+v -> %+v", r.call, r.ret, r.in, r.out)
			if r.isoErr != "" {
				fmt.Fprintf(&b, "  !! %s", r.isoErr)
			}
			b.WriteString("\n")
		}
		return b.String()
	}
	c.Logf("partA n=%d validate=%v faulty=%v trace=%016x", n, validate, faulty, s.TraceHash())
	switch {
	case strings.HasPrefix(ev, "deadlock") || s.Deadlock != "":
		res.Violate("C18/progress", "C18/deadlock:requests", fmt.Sprintf("concurrent requests deadlocked: %s %s\nhistory:\n%s", clip(ev, 200), s.Deadlock, desc()))
	case strings.HasPrefix(ev, "panic"):
		res.Violate("C18/no-crash", "C18/bubble-panic:requests", clip(ev, 600))
	}
	if len(res.Violations) == 0 {
		for _, r := range all {
			if r.panicV != nil {
				res.Violate("C18/no-crash", "C18/panic:"+r.stack, fmt.Sprintf("request %s crashed under concurrency: %v\nhistory:\n%s", r.in.Marker, r.panicV, desc()))
				break
			}
			if r.proc == nil {
				res.Violate("C18/isolation", "C18/isolation:no-process-report", fmt.Sprintf("request %s: response is not its process report (code=%d body=%q)\nhistory:\n%s", r.in.Marker, r.code, clip(string(r.raw), 120), desc()))
				break
			}
			if r.isoErr != "" {
				if validate {
					panic("M18 validation: sequential run shows an isolation error, the harness is wrong: " + r.isoErr + "\n" + desc())
				}
				res.Violate("C18/isolation", "C18/isolation:"+isoClass(r.isoErr), fmt.Sprintf("request %s: %s\nhistory:\n%s", r.in.Marker, r.isoErr, desc()))
				break
			}
		}
	}
	inWindow := true
	if timed {
		res.Probe("timed_case")
		for _, r := range all {
			lo := epoch.Add(time.Duration(r.in.Slot) * 10 * time.Second)
			if r.t0.Before(lo) || r.t1.After(lo.Add(4*time.Second)) || r.in.Slot > 5 {
				inWindow = false // a request queued or waited past its slot's window: expiry is too close to call
			}
		}
		if !inWindow {
			res.Probe("timed_case_abstained")
		}
	}
	if len(res.Violations) == 0 && inWindow {
		var ops []porcupine.Operation
		for i, r := range all {
			ops = append(ops, porcupine.Operation{ClientId: i, Input: r.in, Call: r.call, Output: r.out, Return: r.ret})
		}
		verdict := checkHistory(ops)
		switch verdict {
		case porcupine.Illegal:
			if validate {
				panic("M18 validation failed: a strictly sequential history is not accepted by the model — the model is wrong, not falco:\n" + desc())
			}
			res.Violate("C18/linearizable", "C18/not-serialisable:requests", fmt.Sprintf("no one-at-a-time order of these %d requests (plus final-state probes) produces the observed responses:\n%s", n, desc()))
		case porcupine.Unknown:
			res.Probe("porcupine_timeout")
		default:
			res.Probe("history_linearizable")
		}
	}
	res.Nontrivial = overlapped
	res.Sig = fmt.Sprintf("A|%016x", s.TraceHash())
	if overlapped {
		res.Probe("requests_overlapped")
	}
	if validate {
		res.Probe("model_validation_case")
	}
	if c.Render {
		var hist []string
		for _, l := range strings.Split(strings.TrimRight(desc(), "\n"), "\n") {
			hist = append(hist, strings.TrimSpace(l))
		}
		tr := s.Trace
		if len(tr) > 60 {
			tr = tr[:60]
		}
		res.Rendering = map[string]any{"part": "A: concurrent requests", "clients": n, "sequential_validation_case": validate, "history": hist, "schedule": tr, "decisions": s.Seq}
	}
}

func isoClass(s string) string {
	switch {
	case strings.HasPrefix(s, "response header X-Dbg"):
		return "debug-header"
	case strings.HasPrefix(s, "response header"):
		return "marker"
	case strings.HasPrefix(s, "log line"):
		return "logs"
	case strings.HasPrefix(s, "error object"):
		return "error-object"
	case strings.HasPrefix(s, "reported error"):
		return "reported-error"
	}
	return "other"
}

func addProbe(m map[string]int, k string, v int) map[string]int {
	if m == nil {
		m = map[string]int{}
	}
	m[k] += v
	return m
}

func clip(s string, n int) string {
	if len(s) > n {
		return s[:n]
	}
	return s
}
