package sched

import (
	"encoding/json"
	"fmt"
	"net/http"
	"net/url"
	"runtime"
	"sort"
	"strings"
	"testing"
	"testing/synctest"
	"time"

	"github.com/anishathalye/porcupine"

	ssched "falcosim/sim/sched"
	"falcosim/sim/simfs"
	"falcosim/sim/simhook"
	"falcosim/sim/simnet"
	"falcosim/sim/worker"

	"github.com/ysugimoto/falco/v2/ast"
	"github.com/ysugimoto/falco/v2/interpreter"
	icontext "github.com/ysugimoto/falco/v2/interpreter/context"
)

// ---------------------------------------------------------------------------
// C18 part A — concurrent requests against one simulator are serialisable.
//
// One real interpreter (built with the overlay: cooperative lock, yields at
// subroutine entries), N client tasks, a simulated origin whose round trips
// are scheduling points. The scheduler releases one parked task per
// quiescence, chosen by the tape. The recorded history is checked with
// porcupine against M18, a sequential model of family K.
// ---------------------------------------------------------------------------

const familyK = `
backend F_origin { .host = "origin.test"; .port = "80"; .first_byte_timeout = 5s; }
ratecounter rc_a {}
sub vcl_recv {
  set req.backend = F_origin;
  declare local var.n INTEGER;
  declare local var.d INTEGER;
  set var.d = std.atoi(req.http.X-Delta);
  set var.n = ratelimit.ratecounter_increment(rc_a, "k", var.d);
  set req.http.X-Count = ratecounter.rc_a.bucket.60s;
  log "recv " req.http.X-Marker;
  if (req.http.X-Mode == "pass") { return(pass); }
  if (req.http.X-Mode == "error") { error 700 "e"; }
  if (req.http.X-Mode == "restart" && req.restarts < 2) { restart; }
  return(lookup);
}
sub vcl_hash { log "hash " req.http.X-Marker; }
sub vcl_hit { log "hit " req.http.X-Marker; }
sub vcl_miss { log "miss " req.http.X-Marker; }
sub vcl_pass { log "pass " req.http.X-Marker; }
sub vcl_fetch {
  set beresp.ttl = 3600s;
  set beresp.cacheable = true;
  log "fetch " req.http.X-Marker;
}
sub vcl_error {
  set obj.http.X-Err-Marker = req.http.X-Marker;
  log "error " req.http.X-Marker;
}
sub vcl_deliver {
  set resp.http.X-Marker = req.http.X-Marker;
  set resp.http.X-Count = req.http.X-Count;
  log "deliver " req.http.X-Marker;
}
sub vcl_log {
  log "log " req.http.X-Marker;
}
`

type kInput struct {
	Mode   string // lookup | pass | error | restart
	Key    string // URL
	Delta  int
	Marker string
}

type kOutput struct {
	Branch    string // hit | miss | pass | error
	OriginSaw string // marker of the request that populated the delivered object ("" on error)
	Count     int
	Restarts  int
	Flow      string
}

type kState struct {
	Count int
	Cache string // "key=marker;key=marker" sorted
}

func cacheGet(c, key string) (string, bool) {
	for _, kv := range strings.Split(c, ";") {
		if k, v, ok := strings.Cut(kv, "="); ok && k == key {
			return v, true
		}
	}
	return "", false
}

func cachePut(c, key, marker string) string {
	var parts []string
	for _, kv := range strings.Split(c, ";") {
		if k, _, ok := strings.Cut(kv, "="); ok && k != key {
			parts = append(parts, kv)
		}
	}
	parts = append(parts, key+"="+marker)
	sort.Strings(parts)
	return strings.Join(parts, ";")
}

// m18 is the sequential meaning of one family-K request.
func m18(st kState, in kInput) (kState, kOutput) {
	out := kOutput{}
	passes := 1
	if in.Mode == "restart" {
		passes = 3
		out.Restarts = 2
	}
	st.Count += passes * in.Delta
	out.Count = st.Count
	pre := strings.Repeat("recv>", passes-1)
	switch in.Mode {
	case "error":
		out.Branch, out.Flow = "error", pre+"recv>error>deliver>log"
	case "pass":
		out.Branch, out.OriginSaw, out.Flow = "pass", in.Marker, pre+"recv>hash>pass>fetch>deliver>log"
		st.Cache = cachePut(st.Cache, in.Key, in.Marker) // falco stores the object on the pass path as well
	default:
		if m, ok := cacheGet(st.Cache, in.Key); ok {
			out.Branch, out.OriginSaw, out.Flow = "hit", m, pre+"recv>hash>hit>deliver>log"
		} else {
			out.Branch, out.OriginSaw, out.Flow = "miss", in.Marker, pre+"recv>hash>miss>fetch>deliver>log"
			st.Cache = cachePut(st.Cache, in.Key, in.Marker)
		}
	}
	return st, out
}

var kModel = porcupine.Model{
	Init: func() interface{} { return kState{} },
	Step: func(state, input, output interface{}) (bool, interface{}) {
		ns, want := m18(state.(kState), input.(kInput))
		return want == output.(kOutput), ns
	},
	DescribeOperation: func(input, output interface{}) string {
		return fmt.Sprintf("%+v -> %+v", input, output)
	},
}

type silentDebugger struct{}

func (silentDebugger) Run(ast.Node) interpreter.DebugState { return interpreter.DebugPass }
func (silentDebugger) Message(string)                      {}
func (silentDebugger) Log(*ast.LogStatement, string)       {}

type procJSON struct {
	Flows []struct {
		Subroutine string `json:"subroutine"`
	} `json:"flows"`
	Logs []struct {
		Message string `json:"message"`
	} `json:"logs"`
	Restarts       int    `json:"restarts"`
	Cached         bool   `json:"cached"`
	Error          string `json:"error"`
	ClientResponse struct {
		StatusCode int               `json:"status_code"`
		Headers    map[string]string `json:"headers"`
	} `json:"client_response"`
}

type clientResult struct {
	in       kInput
	call     int64
	ret      int64
	returned bool
	panicV   any
	stack    string
	code     int
	raw      []byte
	proc     *procJSON
	out      kOutput
	isoErr   string
}

func innermostFalcoFrame(skip int) string {
	pcs := make([]uintptr, 96)
	n := runtime.Callers(skip, pcs)
	frames := runtime.CallersFrames(pcs[:n])
	for {
		f, more := frames.Next()
		if strings.Contains(f.Function, "ysugimoto/falco/v2/") {
			return f.Function[strings.Index(f.Function, "falco/v2/")+len("falco/v2/"):]
		}
		if !more {
			break
		}
	}
	return "?"
}

func bubble(tb *testing.T, f func()) (event string) {
	defer func() {
		if v := recover(); v != nil {
			s := fmt.Sprint(v)
			switch {
			case strings.Contains(s, "blocked goroutines") || strings.Contains(s, "main bubble goroutine has exited"):
				event = "leak: " + s
			case strings.Contains(s, "deadlock"):
				event = "deadlock: " + s
			default:
				event = "panic: " + s
			}
		}
	}()
	synctest.Test(tb, func(t *testing.T) { f() })
	return ""
}

func decode(r *clientResult) {
	var pj procJSON
	if json.Unmarshal(r.raw, &pj) != nil || pj.Flows == nil {
		return
	}
	r.proc = &pj
	var fl []string
	for _, f := range pj.Flows {
		if strings.HasPrefix(f.Subroutine, "vcl_") {
			fl = append(fl, strings.TrimPrefix(f.Subroutine, "vcl_"))
		}
	}
	flow := strings.Join(fl, ">")
	o := kOutput{Flow: flow, Restarts: pj.Restarts}
	fmt.Sscanf(pj.ClientResponse.Headers["x-count"], "%d", &o.Count)
	switch {
	case strings.Contains(flow, "error"):
		o.Branch = "error"
	case strings.Contains(flow, "hit"):
		o.Branch = "hit"
	case strings.Contains(flow, "pass"):
		o.Branch = "pass"
	case strings.Contains(flow, "miss"):
		o.Branch = "miss"
	}
	if o.Branch != "error" {
		o.OriginSaw = pj.ClientResponse.Headers["x-origin-saw"]
	}
	r.out = o
	// isolation invariants, checked directly: a response mentions only its own request
	if pj.Error != "" {
		r.isoErr = "reported error: " + pj.Error
		return
	}
	if got := pj.ClientResponse.Headers["x-marker"]; got != r.in.Marker {
		r.isoErr = fmt.Sprintf("response header X-Marker=%q but the request sent %q", got, r.in.Marker)
		return
	}
	for _, l := range pj.Logs {
		f := strings.Fields(l.Message)
		if len(f) == 2 && f[1] != r.in.Marker {
			r.isoErr = fmt.Sprintf("log line %q belongs to another request (own marker %s)", l.Message, r.in.Marker)
			return
		}
	}
	if o.Branch == "error" {
		if got := pj.ClientResponse.Headers["x-err-marker"]; got != r.in.Marker {
			r.isoErr = fmt.Sprintf("error object carries marker %q, own marker %s", got, r.in.Marker)
		}
	}
}

func runPartA(c *worker.Ctx) {
	res := c.Res
	maxN := 6
	if c.Tier == "thorough" {
		maxN = 16
	}
	n := 2 + c.T.Draw(maxN-1)
	validate := c.T.Bool(1, 8) // model-validation case: strictly one at a time
	keys := []string{"/k1", "/k2"}
	modes := []string{"lookup", "lookup", "lookup", "pass", "error", "restart"}
	var ins []kInput
	for i := 0; i < n; i++ {
		ins = append(ins, kInput{Mode: modes[c.T.Draw(len(modes))], Key: keys[c.T.Draw(len(keys))], Delta: 1 + c.T.Draw(3), Marker: fmt.Sprintf("m%d", i)})
	}
	faulty := c.T.Bool(1, 4)
	results := make([]*clientResult, n)
	var probes []*clientResult
	var s *ssched.Sched
	var stamp int64
	var origin *simnet.Origin
	overlapped := false
	ev := bubble(c.TB, func() {
		s = ssched.New(c.T)
		s.KeepTrace = c.Render
		store := simfs.New(familyK, nil)
		interp := interpreter.New(icontext.WithResolver(store))
		interp.Debugger = silentDebugger{}
		origin = simnet.NewOrigin(func(req *http.Request, k int) simnet.Behaviour {
			b := simnet.Behaviour{Kind: "ok", Status: 200, Header: http.Header{"X-Origin-Saw": {req.Header.Get("X-Marker")}}, Body: []byte("b"), BodyErrAfter: -1,
				Latency: time.Duration(c.T.Draw(300)) * time.Millisecond}
			if faulty && c.T.Bool(1, 6) {
				b.Kind, b.Latency = "slow", time.Duration(1+c.T.Draw(3))*time.Second
			}
			return b
		})
		origin.S = s
		old := http.DefaultTransport
		http.DefaultTransport = origin
		defer func() { http.DefaultTransport = old }()
		simhook.Install(s)
		defer simhook.Uninstall()

		serve := func(r *clientResult) {
			u, _ := url.Parse(r.in.Key)
			req := &http.Request{Method: "GET", URL: u, Host: "example.test", Proto: "HTTP/1.1", ProtoMajor: 1, ProtoMinor: 1, RemoteAddr: "192.0.2.10:4000", RequestURI: r.in.Key, Body: http.NoBody,
				Header: http.Header{"X-Marker": {r.in.Marker}, "X-Mode": {r.in.Mode}, "X-Delta": {fmt.Sprint(r.in.Delta)}}}
			rw := simnet.NewRecorder()
			stamp++
			r.call = stamp
			func() {
				defer func() {
					if v := recover(); v != nil {
						r.panicV, r.stack = v, innermostFalcoFrame(3)
					}
				}()
				interp.ServeHTTP(rw, req)
				r.returned = true
			}()
			stamp++
			r.ret = stamp
			r.code, r.raw = rw.Code(), append([]byte{}, rw.Body()...)
		}
		done := make(chan struct{}, n)
		go s.Run()
		if validate {
			// one at a time: the schedule cannot matter; M18 must agree exactly
			for i := range ins {
				i := i
				results[i] = &clientResult{in: ins[i]}
				s.Go(fmt.Sprintf("client-%d", i), func() { serve(results[i]); done <- struct{}{} })
				<-done
			}
		} else {
			for i := range ins {
				i := i
				results[i] = &clientResult{in: ins[i]}
				s.Go(fmt.Sprintf("client-%d", i), func() { serve(results[i]); done <- struct{}{} })
			}
			for range ins {
				<-done
			}
		}
		// final-state probes, after everyone returned
		if s.Deadlock == "" {
			for _, k := range keys {
				p := &clientResult{in: kInput{Mode: "lookup", Key: k, Delta: 0, Marker: "probe" + k[1:]}}
				probes = append(probes, p)
				s.Go("probe", func() { serve(p); done <- struct{}{} })
				<-done
			}
		}
		s.Stop()
		res.SimSeconds += time.Since(time.Date(2000, 1, 1, 0, 0, 0, 0, time.UTC)).Seconds()
	})
	simhook.Uninstall()
	for k, v := range s.Releases {
		res.Probes = addProbe(res.Probes, "release:"+k, v)
	}
	all := append(append([]*clientResult{}, results...), probes...)
	for _, r := range all {
		if r != nil {
			decode(r)
		}
	}
	for i, a := range results {
		for j, b := range results {
			if i < j && a != nil && b != nil && a.call < b.ret && b.call < a.ret {
				overlapped = true
			}
		}
	}
	if origin != nil {
		for k, v := range origin.Fired {
			for x := 0; x < v; x++ {
				res.Fault("origin:" + k)
			}
		}
	}
	desc := func() string {
		var b strings.Builder
		for _, r := range all {
			if r == nil {
				continue
			}
			fmt.Fprintf(&b, "  [%d,%d] %+v -> %+v", r.call, r.ret, r.in, r.out)
			if r.isoErr != "" {
				fmt.Fprintf(&b, "  !! %s", r.isoErr)
			}
			b.WriteString("\n")
		}
		return b.String()
	}
	c.Logf("partA n=%d validate=%v faulty=%v trace=%016x", n, validate, faulty, s.TraceHash())
	switch {
	case strings.HasPrefix(ev, "deadlock") || s.Deadlock != "":
		res.Violate("C18/progress", "C18/deadlock:requests", fmt.Sprintf("concurrent requests deadlocked: %s %s\nhistory:\n%s", clip(ev, 200), s.Deadlock, desc()))
	case strings.HasPrefix(ev, "panic"):
		res.Violate("C18/no-crash", "C18/bubble-panic:requests", clip(ev, 600))
	}
	if len(res.Violations) == 0 {
		for _, r := range all {
			if r.panicV != nil {
				res.Violate("C18/no-crash", "C18/panic:"+r.stack, fmt.Sprintf("request %s crashed under concurrency: %v\nhistory:\n%s", r.in.Marker, r.panicV, desc()))
				break
			}
			if r.proc == nil {
				res.Violate("C18/isolation", "C18/isolation:no-process-report", fmt.Sprintf("request %s: response is not its process report (code=%d body=%q)\nhistory:\n%s", r.in.Marker, r.code, clip(string(r.raw), 120), desc()))
				break
			}
			if r.isoErr != "" {
				if validate {
					panic("M18 validation: sequential run shows an isolation error, the harness is wrong: " + r.isoErr + "\n" + desc())
				}
				res.Violate("C18/isolation", "C18/isolation:"+isoClass(r.isoErr), fmt.Sprintf("request %s: %s\nhistory:\n%s", r.in.Marker, r.isoErr, desc()))
				break
			}
		}
	}
	if len(res.Violations) == 0 {
		var ops []porcupine.Operation
		for i, r := range all {
			ops = append(ops, porcupine.Operation{ClientId: i, Input: r.in, Call: r.call, Output: r.out, Return: r.ret})
		}
		verdict := porcupine.CheckOperationsTimeout(kModel, ops, 20*time.Second)
		switch verdict {
		case porcupine.Illegal:
			if validate {
				panic("M18 validation failed: a strictly sequential history is not accepted by the model — the model is wrong, not falco:\n" + desc())
			}
			res.Violate("C18/linearizable", "C18/not-serialisable:requests", fmt.Sprintf("no one-at-a-time order of these %d requests (plus final-state probes) produces the observed responses:\n%s", n, desc()))
		case porcupine.Unknown:
			res.Probe("porcupine_timeout")
		default:
			res.Probe("history_linearizable")
		}
	}
	res.Nontrivial = overlapped
	res.Sig = fmt.Sprintf("A|%016x", s.TraceHash())
	if overlapped {
		res.Probe("requests_overlapped")
	}
	if validate {
		res.Probe("model_validation_case")
	}
	if c.Render {
		var hist []string
		for _, l := range strings.Split(strings.TrimRight(desc(), "\n"), "\n") {
			hist = append(hist, strings.TrimSpace(l))
		}
		tr := s.Trace
		if len(tr) > 60 {
			tr = tr[:60]
		}
		res.Rendering = map[string]any{"part": "A: concurrent requests", "clients": n, "sequential_validation_case": validate, "history": hist, "schedule": tr, "decisions": s.Seq}
	}
}

func isoClass(s string) string {
	switch {
	case strings.HasPrefix(s, "response header"):
		return "marker"
	case strings.HasPrefix(s, "log line"):
		return "logs"
	case strings.HasPrefix(s, "error object"):
		return "error-object"
	case strings.HasPrefix(s, "reported error"):
		return "reported-error"
	}
	return "other"
}

func addProbe(m map[string]int, k string, v int) map[string]int {
	if m == nil {
		m = map[string]int{}
	}
	m[k] += v
	return m
}

func clip(s string, n int) string {
	if len(s) > n {
		return s[:n]
	}
	return s
}
