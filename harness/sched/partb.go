package sched

import (
	"context"
	"encoding/json"
	"fmt"
	"io"
	"os"
	"sort"
	"strings"
	"time"

	ssched "falcosim/sim/sched"
	"falcosim/sim/simexec"
	"falcosim/sim/simhook"
	"falcosim/sim/worker"

	"github.com/ysugimoto/falco/v2/ast"
	"github.com/ysugimoto/falco/v2/config"
	"github.com/ysugimoto/falco/v2/lexer"
	"github.com/ysugimoto/falco/v2/linter"
	lcontext "github.com/ysugimoto/falco/v2/linter/context"
	"github.com/ysugimoto/falco/v2/parser"
	"github.com/ysugimoto/falco/v2/plugin"
)

// ---------------------------------------------------------------------------
// C18 part B — every diagnostic of every lint plugin is reported, under every
// interleaving. The real linter (overlay: os/exec → simexec, go statements
// registered with the scheduler, (*Linter).Error a yield point); plugin
// "processes" are in-process actors that decode their stdin with the real
// plugin.ReadLinterRequest; their fate, latency and completion order are tape
// decisions.
// ---------------------------------------------------------------------------

type pluginPlan struct {
	Name    string
	Fate    string // ok | notfound | exit1 | garbage | truncated | empty | hang | slow
	K       int    // diagnostics returned when ok/slow
	Latency time.Duration
	Sevs    []string
	Arg     string // the annotation's argument: the same command may be attached twice with different arguments
}

func (p *pluginPlan) call() string { return p.Name + " " + p.Arg }

type registry struct {
	s     *ssched.Sched
	plans map[string]*pluginPlan // by command name (LookPath)
	calls map[string]*pluginPlan // by command name and argument (Run)
	seen  map[string]string      // what the plugin decoded, by call
	fired map[string]int
}

func (r *registry) LookPath(name string) (string, error) {
	r.s.Point("exec-lookpath", name)
	p := r.plans[name]
	if p == nil || p.Fate == "notfound" {
		r.fired["notfound"]++
		return "", &simexec.Error{Name: name, Err: simexec.ErrNotFound}
	}
	return "/sim/bin/" + name, nil
}

// Ignores: a "hang-deaf" plugin has blocked every signal it can block; only
// SIGKILL ends it (simexec never asks about SIGKILL).
func (r *registry) Ignores(path string, args []string, sig os.Signal) bool {
	name := path[strings.LastIndex(path, "/")+1:]
	p := r.calls[name+" "+strings.Join(args, " ")]
	return p != nil && p.Fate == "hang-deaf"
}

type exitErr struct{ msg string }

func (e *exitErr) Error() string { return e.msg }

func (r *registry) Run(ctx context.Context, path string, args []string, stdin io.Reader) ([]byte, []byte, error) {
	name := path[strings.LastIndex(path, "/")+1:]
	p := r.calls[name+" "+strings.Join(args, " ")]
	if p == nil {
		panic(fmt.Sprintf("partB: plugin %s started with arguments %q that no annotation has", name, args))
	}
	name = p.call()
	r.s.Point("exec-start", name)
	r.fired[p.Fate]++
	// the plugin process reads its request with falco's real plugin package
	req, err := plugin.ReadLinterRequest[*ast.SetStatement](stdin)
	if err != nil {
		r.seen[name] = "decode-error: " + err.Error()
	} else {
		r.seen[name] = req.Statement.Ident.Value
	}
	lat := p.Latency
	switch p.Fate {
	case "hang", "hang-deaf":
		<-ctx.Done()
		return nil, []byte("killed"), ctx.Err()
	}
	if lat > 0 {
		if !r.s.SleepOr("exec-run", name, lat, ctx.Done()) {
			return nil, []byte("killed"), ctx.Err()
		}
	}
	r.s.Point("exec-exit", name)
	switch p.Fate {
	case "exit1":
		return nil, []byte("plugin " + name + " failed"), &exitErr{"exit status 1"}
	case "garbage":
		return []byte("this is not json"), nil, nil
	case "truncated":
		return []byte(`{"errors":[{"severity":"ERROR","mess`), nil, nil
	case "empty":
		return nil, nil, nil
	}
	resp := plugin.LinterResponse{}
	for j := 0; j < p.K; j++ {
		msg := fmt.Sprintf("diag %s #%d", name, j)
		switch p.Sevs[j] {
		case "E":
			resp.Error(msg)
		case "W":
			resp.Warning(msg)
		default:
			resp.Info(msg)
		}
	}
	b, _ := json.Marshal(resp)
	return b, nil, nil
}

func runPartB(c *worker.Ctx) {
	res := c.Res
	np := 2 + c.T.Draw(3)
	fates := []string{"ok", "ok", "ok", "ok", "slow", "notfound", "exit1", "garbage", "truncated", "empty", "hang", "hang-deaf"}
	faulty := c.T.Bool(1, 2)
	var plans []*pluginPlan
	var src strings.Builder
	src.WriteString("sub vcl_recv {\n  #FASTLY RECV\n")
	for i := 0; i < np; i++ {
		p := &pluginPlan{Name: fmt.Sprintf("falco-p%d", i), Arg: fmt.Sprintf("arg%d", i), Fate: "ok", K: c.T.Draw(4), Latency: time.Duration(c.T.Draw(2000)) * time.Millisecond}
		var twin *pluginPlan
		if i > 0 && c.T.Bool(1, 5) {
			twin = plans[c.T.Draw(i)] // the same command once more, with another argument
			p.Name = twin.Name
		}
		if c.T.Bool(1, 12) {
			// a chatty plugin: counts around and beyond any plausible internal buffer
			p.K = []int{31, 32, 33, 63, 64, 65, 100, 257}[c.T.Draw(8)]
		}
		if faulty {
			p.Fate = fates[c.T.Draw(len(fates))]
		}
		if twin != nil && (twin.Fate == "notfound") != (p.Fate == "notfound") {
			p.Fate = map[bool]string{true: "notfound", false: "ok"}[twin.Fate == "notfound"] // a command is installed or it is not
		}
		if p.Fate == "slow" {
			p.Latency = 5*time.Second - time.Duration(1+c.T.Draw(50))*time.Millisecond
		}
		for j := 0; j < p.K; j++ {
			p.Sevs = append(p.Sevs, []string{"E", "W", "I"}[c.T.Draw(3)])
		}
		plans = append(plans, p)
		fmt.Fprintf(&src, "  // @plugin: %s %s\n", strings.TrimPrefix(p.Name, "falco-"), p.Arg)
	}
	src.WriteString("  set req.http.X-Target = \"v\";\n  return(lookup);\n}\n")

	vcl, err := parser.New(lexer.NewFromString(src.String())).ParseVCL()
	if err != nil {
		panic("partB: generated VCL does not parse: " + err.Error())
	}
	var s *ssched.Sched
	var l *linter.Linter
	reg := &registry{plans: map[string]*pluginPlan{}, calls: map[string]*pluginPlan{}, seen: map[string]string{}, fired: map[string]int{}}
	for _, p := range plans {
		reg.plans[p.Name] = p
		reg.calls[p.call()] = p
	}
	var panicV any
	var stack string
	finished := false
	ev := bubble(c.TB, func() {
		s = ssched.New(c.T)
		s.KeepTrace = c.Render
		reg.s = s
		simhook.Install(s)
		defer simhook.Uninstall()
		simexec.Install(reg)
		defer simexec.Uninstall()
		done := make(chan struct{}, 1)
		go s.Run()
		s.Go("linter", func() {
			defer func() {
				if v := recover(); v != nil {
					panicV, stack = v, innermostFalcoFrame(3)
				}
				done <- struct{}{}
			}()
			l = linter.New(&config.LinterConfig{})
			l.Lint(vcl, lcontext.New())
			finished = true
		})
		<-done
		s.Stop()
		res.SimSeconds += time.Since(time.Date(2000, 1, 1, 0, 0, 0, 0, time.UTC)).Seconds()
	})
	simhook.Uninstall()
	simexec.Uninstall()
	for k, v := range reg.fired {
		for x := 0; x < v; x++ {
			res.Fault("plugin:" + k)
		}
	}
	for k, v := range s.Releases {
		res.Probes = addProbe(res.Probes, "release:"+k, v)
	}
	c.Logf("partB plugins=%d faulty=%v trace=%016x", np, faulty, s.TraceHash())
	planDesc := func() string {
		var b strings.Builder
		for _, p := range plans {
			fmt.Fprintf(&b, "  %s fate=%s diagnostics=%d latency=%v decoded=%q\n", p.Name, p.Fate, p.K, p.Latency, reg.seen[p.call()])
		}
		return b.String()
	}
	switch {
	case strings.HasPrefix(ev, "deadlock") || s.Deadlock != "":
		res.Violate("C18/progress", "C18/deadlock:plugins", fmt.Sprintf("linting with plugins deadlocked: %s %s\n%s", clip(ev, 200), s.Deadlock, planDesc()))
	case strings.HasPrefix(ev, "panic"):
		res.Violate("C18/no-crash", "C18/bubble-panic:plugins", clip(ev, 600))
	case panicV != nil:
		res.Violate("C18/no-crash", "C18/panic:"+stack, fmt.Sprintf("linter crashed: %v\n%s", panicV, planDesc()))
	case !finished:
		res.Violate("C18/progress", "C18/lint-did-not-finish", planDesc())
	}
	if len(res.Violations) == 0 {
		// expected multiset of plugin-related diagnostics
		want := map[string]int{}
		for _, p := range plans {
			switch p.Fate {
			case "ok", "slow":
				for j := 0; j < p.K; j++ {
					want[fmt.Sprintf("%s|diag %s #%d", map[string]string{"E": string(linter.ERROR), "W": string(linter.WARNING), "I": string(linter.INFO)}[p.Sevs[j]], p.call(), j)]++
				}
			case "notfound":
				want[string(linter.ERROR)+"|notfound:"+p.Name]++
			default: // exit1, garbage, truncated, hang, hang-deaf: exactly one "runs failed" diagnostic
				want[string(linter.ERROR)+"|failed"]++
			case "empty":
				want[string(linter.ERROR)+"|failed"]++
			}
		}
		got := map[string]int{}
		for _, e := range l.Errors {
			m := e.Message
			switch {
			case strings.HasPrefix(m, "diag falco-p"):
				got[string(e.Severity)+"|"+m]++
			case strings.Contains(m, "not found in your environment"):
				name := m[strings.Index(m, `"`)+1:]
				name = name[:strings.Index(name, `"`)]
				got[string(e.Severity)+"|notfound:"+name]++
			case strings.Contains(m, "runs failed"):
				got[string(e.Severity)+"|failed"]++
			}
		}
		var diffs []string
		keys := map[string]bool{}
		for k := range want {
			keys[k] = true
		}
		for k := range got {
			keys[k] = true
		}
		var ks []string
		for k := range keys {
			ks = append(ks, k)
		}
		sort.Strings(ks)
		lost, dup := false, false
		for _, k := range ks {
			if want[k] != got[k] {
				diffs = append(diffs, fmt.Sprintf("%s: want %d got %d", k, want[k], got[k]))
				if got[k] < want[k] {
					lost = true
				} else {
					dup = true
				}
			}
		}
		if len(diffs) > 0 {
			key := "C18/plugin-diagnostics:"
			switch {
			case lost && dup:
				key += "lost+extra"
			case lost:
				key += "lost"
			default:
				key += "extra"
			}
			res.Violate("C18/plugin-diagnostics", key, fmt.Sprintf("diagnostics reported differ from what the plugins returned: %v\nplugins:\n%s", diffs, planDesc()))
		}
		for _, p := range plans {
			if p.Fate != "notfound" && reg.seen[p.call()] != "req.http.X-Target" && reg.seen[p.call()] != "" {
				res.Violate("C18/plugin-request", "C18/plugin-request:decode", fmt.Sprintf("plugin %s decoded %q instead of the annotated statement", p.Name, reg.seen[p.call()]))
			}
		}
		if reg.fired["hang"]+reg.fired["hang-deaf"] > 0 {
			res.Probe("plugin_timeout_fired")
		}
	}
	res.Nontrivial = np >= 2
	res.Sig = fmt.Sprintf("B|%016x", s.TraceHash())
	if c.Render {
		tr := s.Trace
		if len(tr) > 60 {
			tr = tr[:60]
		}
		var ps []string
		for _, l := range strings.Split(strings.TrimRight(planDesc(), "\n"), "\n") {
			ps = append(ps, strings.TrimSpace(l))
		}
		res.Rendering = map[string]any{"part": "B: concurrent lint plugins", "plugins": ps, "schedule": tr, "decisions": s.Seq, "source": src.String()}
	}
}
