package sched

import (
	"fmt"
	"net/http"
	"net/url"
	"os"
	"path/filepath"
	"sort"
	"strings"
	"sync"
	"sync/atomic"
	"time"

	"github.com/anishathalye/porcupine"

	"falcosim/sim/simfs"
	"falcosim/sim/simnet"
	"falcosim/sim/worker"

	"github.com/ysugimoto/falco/v2/config"
	"github.com/ysugimoto/falco/v2/interpreter"
	icontext "github.com/ysugimoto/falco/v2/interpreter/context"
	"github.com/ysugimoto/falco/v2/lexer"
	"github.com/ysugimoto/falco/v2/linter"
	lcontext "github.com/ysugimoto/falco/v2/linter/context"
	"github.com/ysugimoto/falco/v2/parser"
)

// ---------------------------------------------------------------------------
// C18 race mode — the half of C18 that baton-passing cannot show: a data race
// inside one statement. Same workloads, the shipped code (no overlay), real
// goroutines released together with seeded micro-jitter, built with -race.
// ThreadSanitizer reports missing happens-before, not timing, so the verdict
// is far more repeatable than an outcome-based check; it is still labelled
// "not schedule-replayable" in evidence. A DATA RACE report ends the process
// (GORACE halt_on_error) and the driver turns the report into the violation.
// ---------------------------------------------------------------------------

func raceMode() bool { return os.Getenv("FALCOSIM_RACE") != "" }

func runRaceA(c *worker.Ctx) {
	res := c.Res
	n := 2 + c.T.Draw(15)
	keys := []string{"/k1", "/k2"}
	modes := []string{"lookup", "lookup", "lookup", "pass", "error", "restart"}
	var ins []kInput
	var jitter []time.Duration
	for i := 0; i < n; i++ {
		ins = append(ins, kInput{Mode: modes[c.T.Draw(len(modes))], Key: keys[c.T.Draw(len(keys))], Delta: 1 + c.T.Draw(3), Marker: fmt.Sprintf("m%d", i)})
		jitter = append(jitter, time.Duration(c.T.Draw(200))*time.Microsecond)
	}
	originJitter := make([]time.Duration, 64)
	for i := range originJitter {
		originJitter[i] = time.Duration(c.T.Draw(300)) * time.Microsecond
	}
	store := simfs.New(vclK("3600s"), nil)
	interp := interpreter.New(icontext.WithResolver(store))
	interp.Debugger = silentDebugger{}
	var trips atomic.Int64
	origin := simnet.NewOrigin(func(req *http.Request, k int) simnet.Behaviour {
		t := trips.Add(1)
		return simnet.Behaviour{Kind: "ok", Status: 200, Header: http.Header{"X-Origin-Saw": {req.Header.Get("X-Marker")}}, Body: []byte("b"), BodyErrAfter: -1, Latency: originJitter[int(t)%len(originJitter)]}
	})
	origin.MaxTrips = 1 << 30
	old := http.DefaultTransport
	http.DefaultTransport = origin
	defer func() { http.DefaultTransport = old }()
	var stamp atomic.Int64
	results := make([]*clientResult, n)
	serve := func(r *clientResult) {
		u, _ := url.Parse(r.in.Key)
		req := &http.Request{Method: "GET", URL: u, Host: "example.test", Proto: "HTTP/1.1", ProtoMajor: 1, ProtoMinor: 1, RemoteAddr: "192.0.2.10:4000", RequestURI: r.in.Key, Body: http.NoBody,
			Header: http.Header{"X-Marker": {r.in.Marker}, "X-Mode": {r.in.Mode}, "X-Delta": {fmt.Sprint(r.in.Delta)}}}
		rw := simnet.NewRecorder()
		r.call = stamp.Add(1)
		func() {
			defer func() {
				if v := recover(); v != nil {
					r.panicV, r.stack = v, innermostFalcoFrame(3)
				}
			}()
			interp.ServeHTTP(rw, req)
			r.returned = true
		}()
		r.ret = stamp.Add(1)
		r.code, r.raw = rw.Code(), append([]byte{}, rw.Body()...)
	}
	var wg sync.WaitGroup
	start := make(chan struct{})
	for i := range ins {
		results[i] = &clientResult{in: ins[i]}
		wg.Add(1)
		go func(i int) {
			defer wg.Done()
			<-start
			time.Sleep(jitter[i])
			serve(results[i])
		}(i)
	}
	close(start)
	wg.Wait()
	var all []*clientResult
	all = append(all, results...)
	for _, k := range keys {
		p := &clientResult{in: kInput{Mode: "lookup", Key: k, Delta: 0, Marker: "probe" + k[1:]}}
		serve(p)
		all = append(all, p)
	}
	desc := func() string {
		var b strings.Builder
		for _, r := range all {
			fmt.Fprintf(&b, "  [%d,%d] %+v -> %+v %s\n", r.call, r.ret, r.in, r.out, r.isoErr)
		}
		return b.String()
	}
	overlapped := false
	for i, a := range results {
		for j, b := range results {
			if i < j && a.call < b.ret && b.call < a.ret {
				overlapped = true
			}
		}
	}
	for _, r := range all {
		decode(r)
		if r.panicV != nil {
			res.Violate("C18/no-crash", "C18/panic:"+r.stack, fmt.Sprintf("request %s crashed under real concurrency: %v\n%s", r.in.Marker, r.panicV, desc()))
			break
		}
		if r.proc == nil {
			res.Violate("C18/isolation", "C18/isolation:no-process-report", fmt.Sprintf("request %s: not a process report (code=%d)\n%s", r.in.Marker, r.code, desc()))
			break
		}
		if r.isoErr != "" {
			res.Violate("C18/isolation", "C18/isolation:"+isoClass(r.isoErr), fmt.Sprintf("request %s: %s\n%s", r.in.Marker, r.isoErr, desc()))
			break
		}
	}
	if len(res.Violations) == 0 {
		var ops []porcupine.Operation
		for i, r := range all {
			ops = append(ops, porcupine.Operation{ClientId: i, Input: r.in, Call: r.call, Output: r.out, Return: r.ret})
		}
		switch checkHistory(ops) {
		case porcupine.Illegal:
			res.Violate("C18/linearizable", "C18/not-serialisable:requests", fmt.Sprintf("no one-at-a-time order produces the observed responses:\n%s", desc()))
		case porcupine.Unknown:
			res.Probe("porcupine_timeout")
		default:
			res.Probe("history_linearizable")
		}
	}
	res.Nontrivial = overlapped
	res.Sig = fmt.Sprintf("RA|%d|%v", n, ins)
	if overlapped {
		res.Probe("requests_overlapped")
	}
	if c.Render {
		res.Rendering = map[string]any{"part": "A (race mode): real goroutines under -race", "clients": n, "history": strings.Split(strings.TrimSpace(desc()), "\n")}
	}
}

var pluginDirOnce sync.Once
var pluginDir string

// fake plugin executables: real processes on PATH
func setupPlugins() string {
	pluginDirOnce.Do(func() {
		d, err := os.MkdirTemp(".", "plugins-")
		if err != nil {
			panic(err)
		}
		pluginDir, _ = filepath.Abs(d)
		for i := 0; i < 4; i++ {
			for k := 0; k < 4; k++ {
				var errs []string
				for j := 0; j < k; j++ {
					errs = append(errs, fmt.Sprintf(`{"Severity":1,"Message":"diag falco-p%dk%d #%d"}`, i, k, j))
				}
				script := fmt.Sprintf("#!/bin/sh\ncat > /dev/null\nprintf '%%s' '{\"errors\":[%s]}'\n", strings.Join(errs, ","))
				os.WriteFile(filepath.Join(pluginDir, fmt.Sprintf("falco-p%dk%d", i, k)), []byte(script), 0o755)
			}
			os.WriteFile(filepath.Join(pluginDir, fmt.Sprintf("falco-f%d", i)), []byte("#!/bin/sh\ncat > /dev/null\necho boom >&2\nexit 1\n"), 0o755)
		}
		os.Setenv("PATH", pluginDir+":"+os.Getenv("PATH"))
	})
	return pluginDir
}

func runRaceB(c *worker.Ctx) {
	res := c.Res
	setupPlugins()
	np := 2 + c.T.Draw(3)
	var src strings.Builder
	src.WriteString("sub vcl_recv {\n  #FASTLY RECV\n")
	want := map[string]int{}
	var names []string
	for i := 0; i < np; i++ {
		switch c.T.Draw(6) {
		case 0:
			fmt.Fprintf(&src, "  // @plugin: f%d\n", i)
			want["failed"]++
			names = append(names, fmt.Sprintf("f%d", i))
		case 1:
			fmt.Fprintf(&src, "  // @plugin: missing%d\n", i)
			want["notfound"]++
			names = append(names, fmt.Sprintf("missing%d", i))
		default:
			k := c.T.Draw(4)
			fmt.Fprintf(&src, "  // @plugin: p%dk%d\n", i, k)
			for j := 0; j < k; j++ {
				want[fmt.Sprintf("diag falco-p%dk%d #%d", i, k, j)]++
			}
			names = append(names, fmt.Sprintf("p%dk%d", i, k))
		}
	}
	src.WriteString("  set req.http.X-Target = \"v\";\n  return(lookup);\n}\n")
	vcl, err := parser.New(lexer.NewFromString(src.String())).ParseVCL()
	if err != nil {
		panic(err)
	}
	l := linter.New(&config.LinterConfig{})
	var panicV any
	began := time.Now()
	func() {
		defer func() { panicV = recover() }()
		l.Lint(vcl, lcontext.New())
	}()
	if time.Since(began) > 3*time.Second {
		// real processes, real clock: on a starved machine a plugin may approach
		// falco's 5 s limit; the diagnostics comparison would then blame falco for
		// the machine. The race detector's verdict does not depend on timing.
		res.Probe("race_b_slow_machine_comparison_skipped")
		res.Sig = "RB|slow"
		return
	}
	if panicV != nil {
		res.Violate("C18/no-crash", "C18/panic:linter-plugins", fmt.Sprint(panicV))
		return
	}
	got := map[string]int{}
	for _, e := range l.Errors {
		m := e.Message
		switch {
		case strings.HasPrefix(m, "diag falco-p"):
			got[m]++
		case strings.Contains(m, "not found in your environment"):
			got["notfound"]++
		case strings.Contains(m, "runs failed"):
			got["failed"]++
		}
	}
	var diffs []string
	ks := map[string]bool{}
	for k := range want {
		ks[k] = true
	}
	for k := range got {
		ks[k] = true
	}
	var keys []string
	for k := range ks {
		keys = append(keys, k)
	}
	sort.Strings(keys)
	for _, k := range keys {
		if want[k] != got[k] {
			diffs = append(diffs, fmt.Sprintf("%s: want %d got %d", k, want[k], got[k]))
		}
	}
	if len(diffs) > 0 {
		var msgs []string
		for _, e := range l.Errors {
			msgs = append(msgs, e.Message)
		}
		res.Violate("C18/plugin-diagnostics", "C18/plugin-diagnostics:lost", fmt.Sprintf("real plugin processes %v: %v\nall diagnostics: %q", names, diffs, msgs))
	}
	res.Nontrivial = true
	res.Sig = "RB|" + strings.Join(names, ",")
	res.Fault("plugin:real-process")
	if c.Render {
		res.Rendering = map[string]any{"part": "B (race mode): real plugin processes under -race", "plugins": names, "source": src.String()}
	}
}
