package sched

import (
	"os"
	"strconv"

	"falcosim/sim/worker"
)

func scale(n int) int {
	if s := os.Getenv("FALCOSIM_SCALE"); s != "" {
		if f, err := strconv.ParseFloat(s, 64); err == nil && f > 0 {
			n = int(float64(n) * f)
			if n < 1 {
				n = 1
			}
		}
	}
	return n
}

func Engine() *worker.Engine {
	return &worker.Engine{
		Name:       "sched",
		Properties: []string{"C18"},
		NumSampled: func(p, tier string) int {
			if raceMode() {
				if tier == "thorough" {
					return scale(40000)
				}
				return scale(3000)
			}
			if tier == "thorough" {
				return scale(1000000)
			}
			return scale(60000)
		},
		Run: func(c *worker.Ctx) {
			if raceMode() {
				if c.T.Draw(4) == 0 {
					runRaceB(c)
				} else {
					runRaceA(c)
				}
				return
			}
			if c.T.Draw(3) == 0 {
				runPartB(c)
			} else {
				runPartA(c)
			}
		},
	}
}
