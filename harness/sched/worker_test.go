package sched

import (
	"testing"

	"falcosim/sim/worker"
)

func TestWorker(t *testing.T) { worker.Main(t, Engine()) }
