package lintsim

import (
	"errors"
	"fmt"
	"os"
	"path/filepath"
	"sort"
	"strings"

	"falcosim/sim/simmap"
	"falcosim/sim/worker"

	"github.com/ysugimoto/falco/v2/ast"
	"github.com/ysugimoto/falco/v2/config"
	"github.com/ysugimoto/falco/v2/lexer"
	"github.com/ysugimoto/falco/v2/linter"
	lcontext "github.com/ysugimoto/falco/v2/linter/context"
	"github.com/ysugimoto/falco/v2/parser"
	"github.com/ysugimoto/falco/v2/resolver"
)

// ---- the module store on a real directory tree ------------------------------
//
// `falco lint -I inc1 -I inc2 src/main.vcl` resolves modules with
// resolver.FileResolver: the include paths in order, then the main file's
// directory. Here the tree is built per case and each module name is put into
// one of the states a directory entry can be in; the linter must still
// terminate without crashing and say the same thing twice.

var errDiskBudget = errors.New("lintsim: resolve budget exceeded on the file resolver")

// countingResolver delegates to falco's FileResolver and bounds the number of
// Resolve calls (the file resolver has no budget of its own).
type countingResolver struct {
	resolver.Resolver
	calls, budget int
}

func (r *countingResolver) Resolve(stmt *ast.IncludeStatement) (*resolver.VCL, error) {
	r.calls++
	if r.calls > r.budget {
		panic(errDiskBudget)
	}
	return r.Resolver.Resolve(stmt)
}

var entryStates = []string{"file", "missing", "directory", "dangling-symlink", "symlink-loop", "symlink-to-file", "empty-file", "directory-then-file", "dangling-then-file", "file-in-main-dir", "fifo-less-special:dev-null-symlink"}

// placeModule creates the entries for one module name and says what it did.
func placeModule(c *worker.Ctx, root, name, content string) (string, error) {
	inc1, inc2, src := filepath.Join(root, "inc1"), filepath.Join(root, "inc2"), filepath.Join(root, "src")
	file := name + ".vcl"
	state := entryStates[c.T.Draw(len(entryStates))]
	write := func(dir string) error { return os.WriteFile(filepath.Join(dir, file), []byte(content), 0o644) }
	var err error
	switch state {
	case "file":
		err = write([]string{inc1, inc2}[c.T.Draw(2)])
	case "missing":
	case "directory":
		err = os.Mkdir(filepath.Join(inc1, file), 0o755)
	case "dangling-symlink":
		err = os.Symlink(filepath.Join(root, "nowhere", file), filepath.Join(inc1, file))
	case "symlink-loop":
		err = os.Symlink(filepath.Join(inc1, file), filepath.Join(inc1, file))
	case "symlink-to-file":
		if err = os.WriteFile(filepath.Join(root, "real-"+file), []byte(content), 0o644); err == nil {
			err = os.Symlink(filepath.Join(root, "real-"+file), filepath.Join(inc2, file))
		}
	case "empty-file":
		err = os.WriteFile(filepath.Join(inc1, file), nil, 0o644)
	case "directory-then-file":
		if err = os.Mkdir(filepath.Join(inc1, file), 0o755); err == nil {
			err = write(inc2)
		}
	case "dangling-then-file":
		if err = os.Symlink(filepath.Join(root, "nowhere", file), filepath.Join(inc1, file)); err == nil {
			err = write(src)
		}
	case "file-in-main-dir":
		err = write(src)
	default:
		err = os.Symlink("/dev/null", filepath.Join(inc2, file))
	}
	return state, err
}

func lintOnDisk(main string, incs []string, order simmap.Order) (out lintOutcome) {
	var cr *countingResolver
	defer func() {
		if cr != nil {
			out.resolve = cr.calls
		}
		if v := recover(); v != nil {
			if v == errDiskBudget {
				out.spin = true
			} else {
				out.panicV = v
			}
			out.stack = innermostFalcoFrame(3)
		}
		simmap.Uninstall()
	}()
	rs, err := resolver.NewFileResolvers(main, incs)
	if err != nil || len(rs) == 0 {
		out.fatal = fmt.Sprintf("resolver: %v", err)
		return
	}
	cr = &countingResolver{Resolver: rs[0], budget: 300}
	m, err := cr.MainVCL()
	if err != nil {
		out.fatal = "main: " + err.Error()
		return
	}
	vcl, err := parser.New(lexer.NewFromString(m.Data, lexer.WithFile(m.Name))).ParseVCL()
	if err != nil {
		out.fatal = "parse: " + err.Error()
		return
	}
	if order != nil {
		simmap.Install(order)
	}
	l := linter.New(&config.LinterConfig{})
	l.Lint(vcl, lcontext.New(lcontext.WithResolver(cr)))
	if l.FatalError != nil {
		out.fatal = "fatal: " + l.FatalError.Error.Error()
	}
	for _, e := range l.Errors {
		d := diag{Rule: string(e.Rule), Sev: string(e.Severity), File: e.Token.File, Msg: e.Message, Line: e.Token.Line, Pos: e.Token.Position}
		out.diags = append(out.diags, d.full())
	}
	sort.Strings(out.diags)
	return
}

// runDisk lints the case's program from a directory tree whose module entries
// are in tape-chosen states. It returns false when a violation was reported.
func runDisk(c *worker.Ctx, p *lintProgram, src string, mk func(int) simmap.Order) bool {
	res := c.Res
	root, err := os.MkdirTemp(".", "c11fs-")
	if err != nil {
		panic("lintsim: cannot create the case directory: " + err.Error())
	}
	root, _ = filepath.Abs(root)
	defer os.RemoveAll(root)
	for _, d := range []string{"inc1", "inc2", "src"} {
		if err := os.Mkdir(filepath.Join(root, d), 0o755); err != nil {
			panic("lintsim: " + err.Error())
		}
	}
	main := filepath.Join(root, "src", "main.vcl")
	if err := os.WriteFile(main, []byte(src), 0o644); err != nil {
		panic("lintsim: " + err.Error())
	}
	names := make([]string, 0, len(p.modules)+1)
	for n := range p.modules {
		names = append(names, n)
	}
	sort.Strings(names)
	if strings.Contains(src, "\"nope\"") {
		names = append(names, "nope")
	}
	var states []string
	for _, n := range names {
		content := p.modules[n]
		if n == "nope" {
			content = "sub helper_nope { set req.http.X-A = \"n\"; }\n"
		}
		st, err := placeModule(c, root, n, content)
		if err != nil {
			panic("lintsim: cannot build the case directory: " + err.Error())
		}
		states = append(states, n+"="+st)
		res.Fault("disk:" + strings.SplitN(st, ":", 2)[0])
	}
	incs := []string{filepath.Join(root, "inc1"), filepath.Join(root, "inc2")}
	how := "file resolver, modules " + strings.Join(states, " ")
	report := func(o lintOutcome) bool {
		switch {
		case o.panicV != nil:
			res.Violate("C11/T-total", "C11/panic:"+o.stack+":"+clip(fmt.Sprint(o.panicV), 60), fmt.Sprintf("linter panicked (%s): %v\nprogram (%s):\n%s\nmodules: %v", how, o.panicV, p.desc, src, p.modules))
			return true
		case o.spin:
			res.Violate("C11/T-total", "C11/unbounded-include:disk:"+o.stack, fmt.Sprintf("linting does not terminate: include expansion called Resolve more than 300 times (%s)\nprogram:\n%s\nmodules: %v", how, src, p.modules))
			return true
		}
		return false
	}
	a := lintOnDisk(main, incs, mk(0))
	if report(a) {
		return false
	}
	b := lintOnDisk(main, incs, mk(2))
	if report(b) {
		return false
	}
	strip := func(ds []string) []string { // the case directory's name is not part of what is compared
		out := make([]string, len(ds))
		for i, d := range ds {
			out[i] = strings.ReplaceAll(d, root, "<root>")
		}
		return out
	}
	if a.fatal != b.fatal {
		res.Violate("C11/D-deterministic", "C11/order-dependent:fatal-error", fmt.Sprintf("two runs over the same directory tree end differently: %q vs %q (%s)\nprogram:\n%s", a.fatal, b.fatal, how, src))
		return false
	}
	if d := multisetDiff(strip(b.diags), strip(a.diags)); d != "" {
		res.Violate("C11/D-deterministic", "C11/order-dependent:"+ruleOf(d), fmt.Sprintf("two runs over the same directory tree report different diagnostics (%s):\n    %s\nprogram:\n%s", how, d, src))
		return false
	}
	res.Probe("linted_from_directory_tree")
	return true
}
