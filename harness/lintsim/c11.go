package lintsim

import (
	"fmt"
	"os"
	"runtime"
	"sort"
	"strconv"
	"strings"

	"falcosim/sim/simfs"
	"falcosim/sim/simmap"
	"falcosim/sim/vclgen"
	"falcosim/sim/worker"

	"github.com/ysugimoto/falco/v2/config"
	"github.com/ysugimoto/falco/v2/lexer"
	"github.com/ysugimoto/falco/v2/linter"
	lcontext "github.com/ysugimoto/falco/v2/linter/context"
	"github.com/ysugimoto/falco/v2/parser"
	"github.com/ysugimoto/falco/v2/snippet"
)

// ---------------------------------------------------------------------------
// C11 — linting is total and deterministic.
//
// The real linter, built with the typed overlay that routes every `range`
// over a map in linter/… through simmap: Go's random iteration order becomes
// a tape decision. The module store behind `include` is simfs (falco's own
// Resolver interface): missing modules, self and mutual inclusion.
// ---------------------------------------------------------------------------

type decl struct {
	kind string // sub | other
	text string
}

type lintProgram struct {
	decls        []decl
	modules      map[string]string
	desc         string
	funcs        []string
	snippets     map[string]string // Fastly managed snippets reachable through include "snippet::NAME"
	dupLifecycle bool
	dupSub       bool // two declarations of the same user subroutine: which one wins is order-dependent by definition
}

var scopeVars = map[string][]string{
	"recv":    {"req.http.X-A", "req.url", "client.ip", "req.backend"},
	"fetch":   {"beresp.ttl", "beresp.http.X-B", "beresp.cacheable", "req.http.X-A"},
	"deliver": {"resp.http.X-C", "resp.status", "req.http.X-A"},
	"error":   {"obj.status", "obj.http.X-D", "req.http.X-A"},
	"any":     {"req.http.X-A", "req.restarts", "now"},
}

func genStatements(c *worker.Ctx, p *lintProgram, scope string, users []string, depth int) string {
	var b strings.Builder
	n := 1 + c.T.Draw(4)
	vars := scopeVars[scope]
	for i := 0; i < n; i++ {
		switch c.T.Draw(20) {
		case 0:
			fmt.Fprintf(&b, "  set %s = \"v\";\n", vars[c.T.Draw(len(vars))])
		case 1:
			// possibly out-of-scope variable: scope inference must decide
			all := []string{"beresp.ttl", "resp.http.X-C", "obj.status", "req.http.X-A", "bereq.http.X-E"}
			v := all[c.T.Draw(len(all))]
			if v == "beresp.ttl" {
				fmt.Fprintf(&b, "  set %s = 10s;\n", v)
			} else if v == "obj.status" {
				fmt.Fprintf(&b, "  set %s = 500;\n", v)
			} else {
				fmt.Fprintf(&b, "  set %s = \"x\";\n", v)
			}
		case 2:
			if len(users) > 0 {
				fmt.Fprintf(&b, "  call %s;\n", users[c.T.Draw(len(users))])
			}
		case 3:
			fmt.Fprintf(&b, "  if (client.ip ~ acl_%d) { set req.http.X-A = \"in\"; }\n", c.T.Draw(3))
		case 4:
			fmt.Fprintf(&b, "  set req.http.X-A = table.lookup(tbl_%d, \"k\", \"d\");\n", c.T.Draw(3))
		case 5:
			fmt.Fprintf(&b, "  set req.backend = F_b%d;\n", c.T.Draw(3))
		case 6:
			fmt.Fprintf(&b, "  declare local var.v%d STRING;\n  set var.v%d = req.http.X-A;\n", i, i)
		case 7:
			fmt.Fprintf(&b, "  declare local var.unused%d INTEGER;\n", i)
		case 8:
			if depth > 0 {
				fmt.Fprintf(&b, "  if (req.http.X-A == \"a\") {\n%s  } else {\n%s  }\n", genStatements(c, p, scope, users, depth-1), genStatements(c, p, scope, users, depth-1))
			}
		case 9:
			fmt.Fprintf(&b, "  goto lbl%d;\n  set req.http.X-A = \"skipped\";\n  lbl%d:\n", i, i)
		case 10:
			fmt.Fprintf(&b, "  set req.http.X-A = std.tolower(%s);\n", []string{"req.http.X-A", "1", "beresp.http.X-B"}[c.T.Draw(3)])
		case 11:
			fmt.Fprintf(&b, "  if (ratelimit.check_rate(req.http.X-A, rc_%d, 1, 10, 100, pb_%d, 2m)) { error 429; }\n", c.T.Draw(2), c.T.Draw(2))
		case 12:
			// capturing match, then reads of the capture variables
			fmt.Fprintf(&b, "  if (req.http.X-A ~ \"^(a+)(b*)-(c)\") {\n    set req.http.X-A = re.group.%d;\n  }\n", c.T.Draw(5))
		case 13:
			// read of a capture variable without a preceding match in this subroutine
			fmt.Fprintf(&b, "  set req.http.X-A = re.group.%d;\n", c.T.Draw(4))
		case 14:
			if len(p.funcs) > 0 {
				fmt.Fprintf(&b, "  if (%s(req.http.X-A)) { set req.http.X-A = \"f\"; }\n", p.funcs[c.T.Draw(len(p.funcs))])
			}
		case 19:
			// ignore comments: this line only, the next line only, a range — what they silence ends where they say
			v := []string{"beresp.http.X-B", "resp.http.X-C", "obj.status", "bereq.http.X-E"}[c.T.Draw(4)]
			switch c.T.Draw(4) {
			case 0:
				fmt.Fprintf(&b, "  set req.http.X-A = %s; // falco-ignore\n", v)
			case 1:
				fmt.Fprintf(&b, "  // falco-ignore-next-line\n  set req.http.X-A = %s;\n", v)
			case 2:
				fmt.Fprintf(&b, "  // falco-ignore-start\n  set req.http.X-A = %s;\n  // falco-ignore-end\n", v)
			default:
				fmt.Fprintf(&b, "  set req.http.X-A = %s; # falco-ignore\n  set req.http.X-A = %s;\n", v, v)
			}
		case 15:
			// statements with absent optional parts, and odd but legal forms
			b.WriteString([]string{"  error;\n", "  error 700;\n", "  error 700 \"m\";\n", "  error req.http.X-A;\n", "  restart;\n", "  esi;\n", "  return;\n", "  synthetic \"s\";\n", "  synthetic.base64 \"cw==\";\n", "  log \"l\";\n", "  unset req.http.X-A;\n", "  remove req.http.X-A;\n", "  add req.http.X-A = \"a\";\n", "  switch (req.http.X-A) {\n  case \"a\":\n    esi;\n    break;\n  default:\n    break;\n  }\n"}[c.T.Draw(14)])
		case 16, 17:
			// variables by name: every shape of dotted path the name tables know, and some they do not
			v := oddVars[c.T.Draw(len(oddVars))]
			switch c.T.Draw(5) {
			case 0:
				fmt.Fprintf(&b, "  set req.http.X-A = %s;\n", v)
			case 1:
				fmt.Fprintf(&b, "  if (%s) { esi; }\n", v)
			case 2:
				fmt.Fprintf(&b, "  set %s = \"x\";\n", v)
			case 3:
				fmt.Fprintf(&b, "  unset %s;\n", v)
			default:
				fmt.Fprintf(&b, "  log %s;\n", v)
			}
		default:
			fmt.Fprintf(&b, "  if (req.http.X-A !~ \"%s\") { set req.http.X-A = \"n\"; }\n", []string{"x(y)", "^/api/(?", "(?:a)(b)", "(?<n>a)", "(?P<n>a)(", "a)", "[(]", "\\\\(a\\\\)", "(?i)(a)|(b)", "((((", ""}[c.T.Draw(11)])
		}
	}
	return b.String()
}

// declaresEverything declares every name the generated programs may refer to
// without declaring it.
const declaresEverything = `
backend F_b0 { .host = "x0.example.com"; .port = "443"; }
backend F_b1 { .host = "x1.example.com"; .port = "443"; }
backend F_b2 { .host = "x2.example.com"; .port = "443"; }
backend nosuch { .host = "n.example.com"; }
director d_x random { { .backend = F_b0; .weight = 1; } }
acl acl_0 { "10.0.0.0"/8; }
acl acl_1 { "10.1.0.0"/16; }
acl acl_2 { "10.2.0.0"/16; }
table tbl_0 { "k": "v" }
table tbl_1 { "k": "v" }
table tbl_2 { "k": "v" }
ratecounter rc_0 {}
ratecounter rc_1 {}
ratecounter nosuch_rc {}
penaltybox pb_0 {}
penaltybox pb_1 {}
sub u0 { set req.http.X-A = "o"; }
sub u1 { set req.http.X-A = "o"; }
sub u2 { set req.http.X-A = "o"; }
sub u3 { set req.http.X-A = "o"; }
sub u4 { set req.http.X-A = "o"; }
sub u5 { set req.http.X-A = "o"; }
sub fn_0(STRING var.p) BOOL { return true; }
sub fn_1(STRING var.p) BOOL { return true; }
sub fn_2(STRING var.p) BOOL { return true; }
sub helper_m0 { set req.http.X-A = "o"; }
sub helper_m1 { set req.http.X-A = "o"; }
sub vcl_recv {
  #FASTLY RECV
  declare local var.undeclared STRING;
  set req.backend = F_b0;
  set req.http.X-A = backend.F_b0.healthy backend.nosuch.healthy director.d_x.healthy ratecounter.rc_0.bucket.10s;
  if (req.http.X-A ~ "(a)(b)(c)(d)(e)(f)(g)(h)(i)(j)(k)") { set req.http.X-A = re.group.11; }
  call u0; call u1; call u2; call u3; call u4; call u5; call helper_m0; call helper_m1;
  return(lookup);
}
`

var oddVars = []string{
	"ratecounter.rc_0.bucket.10s", "ratecounter.rc_0.rate.60s", "ratecounter.rc_0.foo.10s", "ratecounter.rc_0.bucket.99s", "ratecounter.rc_0.bucket", "ratecounter.rc_0", "ratecounter.nosuch.bucket.10s", "ratecounter.rc_0.bucket.10s.x",
	"backend.F_b0.healthy", "backend.F_b0.connections_open", "backend.nosuch.healthy", "backend.F_b0.nosuch", "backend.F_b0", "director.F_b0.healthy", "director.nosuch.healthy",
	"req.http", "req.http.X-A:sub", "req.http.X-A:a:b", "req.http.Cookie:k", "beresp.http.X-B", "bereq.http.X-E", "obj.http.X-D", "resp.http.X-C",
	"var.undeclared", "var", "re.group.0", "re.group.10", "re.group.11", "re.group.x", "re.group", "table.tbl_0", "tbl_0", "acl_0", "F_b0",
	"tls.client.cipher", "tls.client.nosuch", "fastly.ff.visits_this_service", "fastly_info.state", "math.PI", "math.NOSUCH", "client.geo.city", "client.geo.nosuch", "client.as.number",
	"now", "now.sec", "time.start.msec", "req.url.path", "req.url.ext", "req.url.nosuch", "req.url.path.x", "req", "beresp", "obj", "resp", "server.identity", "workspace.bytes_free", "waf.executed", "segmented_caching.block_number",
	"req.backend.healthy", "req.backend.name", "req.backend", "beresp.backend.name", "client.identity", "req.hash", "req.hash_always_miss", "esi.allow_inside_cdata", "quic.cc.cwnd", "transport.type",
}

func genProgram(c *worker.Ctx) *lintProgram {
	p := &lintProgram{modules: map[string]string{}}
	nUser := c.T.Draw(6)
	var users []string
	for i := 0; i < nUser; i++ {
		users = append(users, fmt.Sprintf("u%d", i))
	}
	nf := c.T.Draw(3)
	for i := 0; i < nf; i++ {
		p.funcs = append(p.funcs, fmt.Sprintf("fn_%d", i))
	}
	add := func(kind, text string) { p.decls = append(p.decls, decl{kind, text}) }
	// resources: some used, some unused, some duplicated
	for i := 0; i < 3; i++ {
		if c.T.Bool(2, 3) {
			add("other", fmt.Sprintf("backend F_b%d { .host = \"h%d.example.com\"; .port = \"443\"; }\n", i, i))
		}
		if c.T.Bool(2, 3) {
			add("other", fmt.Sprintf("acl acl_%d { \"10.%d.0.0\"/16; }\n", i, i))
		}
		if c.T.Bool(2, 3) {
			add("other", fmt.Sprintf("table tbl_%d { \"k\": \"v%d\" }\n", i, i))
		}
	}
	for i := 0; i < 2; i++ {
		if c.T.Bool(2, 3) {
			add("other", fmt.Sprintf("ratecounter rc_%d {}\n", i))
			add("other", fmt.Sprintf("penaltybox pb_%d {}\n", i))
		}
	}
	if c.T.Bool(1, 5) {
		add("other", "acl acl_0 { \"192.0.2.0\"/24; }\n") // duplicate
	}
	// user subroutines: chains, diamonds, recursion, optional scope annotations
	for i, u := range users {
		var callees []string
		for j := range users {
			if j != i && c.T.Bool(1, 3) || j == i && c.T.Bool(1, 10) {
				callees = append(callees, users[j])
			}
		}
		ann := ""
		if c.T.Bool(1, 4) {
			ann = "// @scope: " + []string{"recv", "fetch", "recv,fetch", "deliver", "error,deliver"}[c.T.Draw(5)] + "\n"
		}
		scope := []string{"any", "recv", "fetch", "deliver"}[c.T.Draw(4)]
		add("sub", fmt.Sprintf("%ssub %s {\n%s}\n", ann, u, genStatements(c, p, scope, callees, 1)))
	}
	if nUser > 0 && c.T.Bool(1, 6) {
		add("sub", fmt.Sprintf("sub %s {\n  set req.http.X-A = \"dup\";\n}\n", users[0])) // duplicate subroutine
		p.dupSub = true
	}
	for _, name := range p.funcs {
		var body string
		switch c.T.Draw(4) {
		case 0:
			body = "  return var.p == \"a\";\n"
		case 1:
			body = fmt.Sprintf("  if (re.group.%d == \"x\") {\n    return true;\n  }\n  return false;\n", c.T.Draw(4))
		case 2:
			body = "  if (var.p ~ \"^(k)(l)\") {\n    return re.group.2 == \"l\";\n  }\n  return false;\n"
		default:
			body = "  declare local var.t STRING;\n  set var.t = re.group.1;\n  return var.t == var.p;\n"
		}
		add("sub", fmt.Sprintf("sub %s(STRING var.p) BOOL {\n%s}\n", name, body))
	}
	// lifecycle subroutines
	for _, s := range []string{"recv", "fetch", "deliver", "error"} {
		if s != "recv" && c.T.Bool(1, 3) {
			continue
		}
		macro := "  #FASTLY " + strings.ToUpper(s) + "\n"
		ret := map[string]string{"recv": "  return(lookup);\n", "fetch": "  return(deliver);\n", "deliver": "  return(deliver);\n", "error": "  return(deliver);\n"}[s]
		add("sub", fmt.Sprintf("sub vcl_%s {\n%s%s%s}\n", s, macro, genStatements(c, p, s, users, 2), ret))
	}
	// a second declaration of a lifecycle subroutine, with its own calls
	// (legal: the bodies are concatenated)
	if c.T.Bool(1, 6) {
		s := []string{"recv", "fetch", "deliver"}[c.T.Draw(3)]
		add("sub", fmt.Sprintf("sub vcl_%s {\n%s}\n", s, genStatements(c, p, s, users, 1)))
		p.dupLifecycle = true
	}
	// include graph; module names are written with or without the .vcl extension
	ext := func() string {
		if c.T.Bool(1, 2) {
			return ".vcl"
		}
		return ""
	}
	switch c.T.Draw(16) {
	case 14:
		// a module that does not exist, included from subroutine bodies, before and after modules that do
		p.desc = "include:missing-in-subs"
		p.modules["m0"] = "set req.http.X-A = \"m0\";\n"
		p.modules["m1"] = "include \"nope" + ext() + "\";\nset req.http.X-A = \"m1\";\n"
		add("sub", "sub inc_a {\n  include \"nope"+ext()+"\";\n  include \"m0"+ext()+"\";\n}\n")
		add("sub", "sub inc_b {\n  include \"m1"+ext()+"\";\n  include \"m0"+ext()+"\";\n  include \"m1"+ext()+"\";\n}\n")
		add("sub", "sub inc_c {\n  include \"m0"+ext()+"\";\n  include \"nope"+ext()+"\";\n  include \"nope"+ext()+"\";\n}\n")
	case 15:
		p.desc = "include:missing-then-same-at-root"
		p.modules["m0"] = "sub helper_m0 { set req.http.X-A = \"m\"; }\n"
		add("other", "include \"nope\";\n")
		add("other", "include \"m0"+ext()+"\";\n")
		add("sub", "sub inc_a {\n  include \"nope\";\n}\n")
		add("sub", "sub inc_b {\n  include \"nope\";\n}\n")
	case 11:
		// Fastly managed snippets: one that includes itself from a subroutine body
		p.desc = "include:snippet-self"
		p.snippets = map[string]string{"s0": "include \"snippet::s0\";\nset req.http.X-A = \"s\";\n"}
		add("sub", "sub inc_user {\n  include \"snippet::s0\";\n}\n")
	case 12:
		p.desc = "include:snippet-cycle2"
		p.snippets = map[string]string{"s0": "if (req.http.X-A) {\n  include \"snippet::s1\";\n}\n", "s1": "include \"snippet::s0\";\n"}
		add("sub", "sub inc_user {\n  include \"snippet::s0\";\n}\n")
	case 13:
		p.desc = "include:snippet-and-module"
		p.snippets = map[string]string{"s0": "include \"m0" + ext() + "\";\n"}
		p.modules["m0"] = "include \"snippet::s0\";\nset req.http.X-A = \"m\";\n"
		add("sub", "sub inc_user {\n  include \"snippet::s0\";\n  include \"snippet::nosuch\";\n}\n")
	case 8:
		// the include sits inside a nested block of the module it names
		p.desc = "include:nested-self"
		p.modules["m0"] = "if (req.http.X-A) {\n  include \"m0" + ext() + "\";\n}\nset req.http.X-A = \"m\";\n"
		add("sub", "sub inc_user {\n  include \"m0"+ext()+"\";\n}\n")
	case 9:
		p.desc = "include:nested-cycle2"
		p.modules["m0"] = "if (req.http.X-A) {\n  if (req.http.X-A == \"b\") {\n    include \"m1" + ext() + "\";\n  }\n}\n"
		p.modules["m1"] = "if (req.http.X-A) {\n  include \"m0" + ext() + "\";\n} else {\n  include \"m1" + ext() + "\";\n}\n"
		add("sub", "sub inc_user {\n  if (req.http.X-A) {\n    include \"m0"+ext()+"\";\n  }\n}\n")
	case 10:
		p.desc = "include:twice-no-cycle"
		p.modules["m0"] = "set req.http.X-A = \"m\";\n"
		add("sub", "sub inc_user {\n  include \"m0"+ext()+"\";\n  if (req.http.X-A) {\n    include \"m0"+ext()+"\";\n  }\n}\n")
	case 6:
		// a valid module of declarations, included where statements are expected:
		// it fails to parse when the linter reaches the include, in the middle of linting
		p.desc = "include:declarations-module-in-sub"
		p.modules["m0"] = "sub helper_m0 { set req.http.X-A = \"m\"; }\n"
		add("sub", "sub inc_user {\n  include \"m0"+ext()+"\";\n}\n")
	case 7:
		p.desc = "include:syntax-error-in-sub"
		p.modules["m0"] = "set req.http.X-A = \"m\";\nset = ;\n"
		add("sub", "sub inc_user {\n  if (req.http.X-A) {\n    include \"m0"+ext()+"\";\n  }\n}\n")
	case 0:
		p.desc = "include:missing"
		add("other", "include \"nope\";\n")
	case 1:
		p.desc = "include:self"
		p.modules["m0"] = "include \"m0" + ext() + "\";\nsub helper_m0 { set req.http.X-A = \"m\"; }\n"
		add("other", "include \"m0"+ext()+"\";\n")
	case 2:
		k := 2 + c.T.Draw(3)
		p.desc = fmt.Sprintf("include:cycle%d", k)
		for i := 0; i < k; i++ {
			p.modules[fmt.Sprintf("m%d", i)] = fmt.Sprintf("include \"m%d%s\";\nsub helper_m%d { set req.http.X-A = \"m\"; }\n", (i+1)%k, ext(), i)
		}
		add("other", "include \"m0"+ext()+"\";\n")
	case 3:
		p.desc = "include:dag"
		p.modules["m0"] = "include \"m1" + ext() + "\";\nsub helper_m0 { call helper_m1; }\n"
		p.modules["m1"] = "sub helper_m1 { set req.http.X-A = \"m\"; }\n"
		add("other", "include \"m0"+ext()+"\";\n")
	case 4:
		p.desc = "include:syntax-error"
		p.modules["m0"] = "sub broken { set = ; }\n"
		add("other", "include \"m0\";\n")
	case 5:
		p.desc = "include:in-sub-self"
		p.modules["m0"] = "include \"m0" + ext() + "\";\nset req.http.X-A = \"m\";\n"
		add("sub", "sub inc_user {\n  include \"m0"+ext()+"\";\n}\n")
	default:
		p.desc = "no-include"
	}
	// A subroutine that includes from its body goes on after the include: with a
	// local declared before it and statements whose diagnostics depend on the
	// scope; and a second subroutine does the same.
	if c.T.Bool(1, 2) {
		for i, d := range p.decls {
			if d.kind == "sub" && strings.HasPrefix(d.text, "sub inc_user {\n") && strings.HasSuffix(d.text, "}\n") {
				body := strings.TrimSuffix(strings.TrimPrefix(d.text, "sub inc_user {\n"), "}\n")
				full := "  declare local var.l STRING;\n" + body + "  set var.l = \"x\";\n  set req.http.X-A = beresp.http.X-B;\n  set req.http.X-A = var.l;\n"
				p.decls[i].text = "sub inc_user {\n" + full + "}\n"
				// the same shape with other names, so that the two subroutines' diagnostics can be told apart
				add("sub", "sub inc_user2 {\n"+strings.NewReplacer("var.l", "var.m", "beresp.http.X-B", "beresp.http.X-Second", "req.http.X-A", "req.http.X-Other").Replace(full)+"}\n")
				p.desc += "+continues"
				break
			}
		}
	}
	return p
}

func (p *lintProgram) render(order []int) string {
	var b strings.Builder
	for _, i := range order {
		b.WriteString(p.decls[i].text)
	}
	return b.String()
}

type diag struct {
	Rule, Sev, File, Msg string
	Line, Pos            int
}

func (d diag) full() string {
	return fmt.Sprintf("%s|%s|%s:%d:%d|%s", d.Rule, d.Sev, d.File, d.Line, d.Pos, d.Msg)
}

var digits = strings.NewReplacer("0", "", "1", "", "2", "", "3", "", "4", "", "5", "", "6", "", "7", "", "8", "", "9", "")

func (d diag) unlocated() string { return fmt.Sprintf("%s|%s|%s", d.Rule, d.Sev, d.Msg) }

type lintOutcome struct {
	diags   []string
	unloc   []string
	panicV  any
	stack   string
	spin    bool
	fatal   string
	resolve int
}

func innermostFalcoFrame(skip int) string {
	pcs := make([]uintptr, 96)
	n := runtime.Callers(skip, pcs)
	frames := runtime.CallersFrames(pcs[:n])
	for {
		f, more := frames.Next()
		if strings.Contains(f.Function, "ysugimoto/falco/v2/") {
			return f.Function[strings.Index(f.Function, "falco/v2/")+len("falco/v2/"):]
		}
		if !more {
			break
		}
	}
	return "?"
}

// managedSnippets are the Fastly managed snippets of the case being run.
var managedSnippets map[string]string

func lintOnce(src string, modules map[string]string, order simmap.Order) (out lintOutcome) {
	store := simfs.New(src, modules)
	store.Budget = 300
	defer func() {
		out.resolve = store.Calls
		if v := recover(); v != nil {
			if v == simfs.ResolveBudget {
				out.spin = true
			} else {
				out.panicV = v
			}
			out.stack = innermostFalcoFrame(3)
		}
		simmap.Uninstall()
	}()
	vcl, err := parser.New(lexer.NewFromString(src, lexer.WithFile("main.vcl"))).ParseVCL()
	if err != nil {
		out.fatal = "parse: " + err.Error()
		return
	}
	if order != nil {
		simmap.Install(order)
	}
	l := linter.New(&config.LinterConfig{})
	opts := []lcontext.Option{lcontext.WithResolver(store)}
	if len(managedSnippets) > 0 {
		inc := snippet.IncludeSnippets{}
		for name, data := range managedSnippets {
			inc[name] = snippet.Item{Name: name, Data: data}
		}
		opts = append(opts, lcontext.WithSnippets(&snippet.Snippets{IncludeSnippets: inc, ScopedSnippets: snippet.ScopedSnippets{}, LoggingEndpoints: snippet.LoggingEndpoints{}}))
	}
	l.Lint(vcl, lcontext.New(opts...))
	if l.FatalError != nil {
		out.fatal = "fatal: " + l.FatalError.Error.Error()
	}
	for _, e := range l.Errors {
		d := diag{Rule: string(e.Rule), Sev: string(e.Severity), File: e.Token.File, Msg: e.Message, Line: e.Token.Line, Pos: e.Token.Position}
		out.diags = append(out.diags, d.full())
		out.unloc = append(out.unloc, d.unlocated())
	}
	sort.Strings(out.diags)
	sort.Strings(out.unloc)
	return
}

func multisetDiff(a, b []string) string {
	m := map[string]int{}
	for _, x := range a {
		m[x]++
	}
	for _, x := range b {
		m[x]--
	}
	var ks []string
	for k, v := range m {
		if v != 0 {
			ks = append(ks, fmt.Sprintf("%+d × %s", v, k))
		}
	}
	sort.Strings(ks)
	if len(ks) > 6 {
		ks = ks[:6]
	}
	return strings.Join(ks, "\n    ")
}

func ruleOf(diff string) string {
	// first differing diagnostic's rule (or message head when it has no rule)
	i := strings.Index(diff, "× ")
	if i < 0 {
		return "?"
	}
	rest := diff[i+len("× "):]
	parts := strings.SplitN(rest, "|", 4)
	if parts[0] != "" {
		return parts[0]
	}
	if len(parts) == 4 {
		return "norule:" + clip(digits.Replace(parts[3]), 40)
	}
	if len(parts) == 3 {
		return "norule:" + clip(digits.Replace(parts[2]), 40)
	}
	return "?"
}

func clip(s string, n int) string {
	if len(s) > n {
		return s[:n]
	}
	return s
}

// runC11Grammar lints a program from the grammar-wide generator (every node
// kind, well-typed or not): oracles T and D.
func runC11Grammar(c *worker.Ctx) {
	res := c.Res
	o := vclgen.Default()
	o.Comments = c.T.Bool(1, 4)
	src := vclgen.Program(c.T, o)
	orderFor := func(kind int) simmap.Order {
		if kind == 0 {
			return func(n int) []int {
				out := make([]int, n)
				for i := range out {
					out[i] = i
				}
				return out
			}
		}
		return func(n int) []int { return c.T.Perm(n) }
	}
	base := lintOnce(src, nil, orderFor(0))
	res.Sig = fmt.Sprintf("grammar|%x|%d", hash(src), len(base.diags))
	res.Nontrivial = true
	if strings.HasPrefix(base.fatal, "parse:") {
		res.Probe("grammar_program_unparseable")
		return
	}
	res.Probe("grammar_program_linted")
	report := func(o lintOutcome, how string) bool {
		switch {
		case o.panicV != nil:
			res.Violate("C11/T-total", "C11/panic:"+o.stack+":"+clip(fmt.Sprint(o.panicV), 60), fmt.Sprintf("linter panicked (%s): %v\nprogram (grammar-wide generator):\n%s", how, o.panicV, src))
			return true
		case o.spin:
			res.Violate("C11/T-total", "C11/unbounded-include:grammar:"+o.stack, fmt.Sprintf("linting does not terminate (%s)\nprogram:\n%s", how, src))
			return true
		}
		return false
	}
	if report(base, "sorted map order") {
		return
	}
	for r := 1; r <= 2; r++ {
		o := lintOnce(src, nil, orderFor(r))
		if report(o, fmt.Sprintf("map order #%d", r)) {
			return
		}
		if d := multisetDiff(o.diags, base.diags); d != "" {
			res.Violate("C11/D-deterministic", "C11/order-dependent:"+ruleOf(d), fmt.Sprintf("diagnostics depend on Go's map iteration order (order #%d vs sorted):\n    %s\nprogram:\n%s", r, d, src))
			return
		}
	}
	if c.Render {
		res.Rendering = map[string]any{"program": src, "generator": "grammar-wide", "diagnostics": len(base.diags)}
	}
}

func runC11(c *worker.Ctx) {
	res := c.Res
	if c.T.Bool(1, 5) {
		runC11Grammar(c)
		return
	}
	p := genProgram(c)
	managedSnippets = p.snippets
	defer func() { managedSnippets = nil }()
	identity := make([]int, len(p.decls))
	for i := range identity {
		identity[i] = i
	}
	src := p.render(identity)
	R := 4
	if c.Tier == "thorough" {
		R = 12
	}
	before := simmap.Multi.Load()
	// order 0: sorted keys; order 1: reverse; the rest: tape permutations
	orders := []simmap.Order{
		func(n int) []int { return c.T.Perm(1)[:0:0] },
	}
	_ = orders
	mk := func(kind int) simmap.Order {
		switch kind {
		case 0:
			return func(n int) []int {
				o := make([]int, n)
				for i := range o {
					o[i] = i
				}
				return o
			}
		case 1:
			return func(n int) []int {
				o := make([]int, n)
				for i := range o {
					o[i] = n - 1 - i
				}
				return o
			}
		}
		return func(n int) []int { return c.T.Perm(n) }
	}
	c.Logf("program %s decls=%d modules=%d", p.desc, len(p.decls), len(p.modules))
	base := lintOnce(src, p.modules, mk(0))
	multi := simmap.Multi.Load() - before
	res.Nontrivial = multi > 0 || strings.HasPrefix(p.desc, "include:")
	res.Sig = fmt.Sprintf("%s|%x|%d", p.desc, hash(src), len(base.diags))
	if strings.HasPrefix(p.desc, "include:") {
		res.Fault("store:" + strings.TrimPrefix(p.desc, "include:"))
	}
	report := func(o lintOutcome, how string) bool {
		switch {
		case o.panicV != nil:
			res.Violate("C11/T-total", "C11/panic:"+o.stack+":"+clip(fmt.Sprint(o.panicV), 60), fmt.Sprintf("linter panicked (%s): %v\nprogram (%s):\n%s\nmodules: %v", how, o.panicV, p.desc, src, p.modules))
			return true
		case o.spin:
			res.Violate("C11/T-total", "C11/unbounded-include:"+strings.TrimPrefix(p.desc, "include:")+":"+o.stack, fmt.Sprintf("linting does not terminate: include expansion called Resolve more than 300 times (%s)\nprogram:\n%s\nmodules: %v", how, src, p.modules))
			return true
		}
		return false
	}
	if report(base, "sorted map order") {
		return
	}
	if base.fatal != "" && strings.HasPrefix(base.fatal, "parse:") {
		panic("lintsim: generated program does not parse: " + base.fatal + "\n" + src)
	}
	if multi > 0 {
		res.Probe("map_with_2plus_keys_iterated")
	}
	if len(base.diags) > 0 {
		res.Probe("diagnostics_reported")
	}
	// D: same diagnostics under every map order, and on a repeat of the same order
	for r := 1; r <= R; r++ {
		kind := r
		if r == R {
			kind = 0 // repeat of the first order
		}
		o := lintOnce(src, p.modules, mk(kind))
		if report(o, fmt.Sprintf("map order #%d", r)) {
			return
		}
		if d := multisetDiff(o.diags, base.diags); d != "" {
			res.Violate("C11/D-deterministic", "C11/order-dependent:"+ruleOf(d), fmt.Sprintf("diagnostics depend on Go's map iteration order (order #%d vs sorted):\n    %s\nprogram:\n%s", r, d, src))
			return
		}
	}
	// native (unowned) order as well: any divergence there is also a violation
	o := lintOnce(src, p.modules, nil)
	if !report(o, "native order") {
		if d := multisetDiff(o.diags, base.diags); d != "" {
			res.Violate("C11/D-deterministic", "C11/order-dependent:"+ruleOf(d), fmt.Sprintf("diagnostics differ between two runs (native map order vs sorted):\n    %s\nprogram:\n%s", d, src))
			return
		}
	}
	// H: history inside one process. Another, unrelated program is linted in
	// between — one that declares everything this program may refer to — and
	// this program is linted again: what it reports must not depend on what the
	// process linted before.
	if c.T.Bool(1, 3) {
		other := lintOnce(declaresEverything, nil, mk(0))
		if other.panicV != nil || other.spin {
			panic(fmt.Sprintf("lintsim: the intervening program does not lint: %v", other.panicV))
		}
		again := lintOnce(src, p.modules, mk(0))
		if report(again, "after another program was linted in the same process") {
			return
		}
		if d := multisetDiff(again.diags, base.diags); d != "" {
			res.Violate("C11/D-deterministic", "C11/history-dependent:"+ruleOf(d), fmt.Sprintf("the same program reports different diagnostics after an unrelated program (which declares the names this one refers to) was linted in the same process:\n    %s\nprogram:\n%s", d, src))
			return
		}
		res.Probe("relinted_after_another_program")
	}
	// P: permuting subroutine declarations changes only locations
	var subIdx []int
	for i, d := range p.decls {
		if d.kind == "sub" {
			subIdx = append(subIdx, i)
		}
	}
	if len(subIdx) >= 2 && !p.dupSub {
		perm := c.T.Perm(len(subIdx))
		order := append([]int{}, identity...)
		for k, i := range subIdx {
			order[i] = subIdx[perm[k]]
		}
		src2 := p.render(order)
		if src2 != src {
			o2 := lintOnce(src2, p.modules, mk(0))
			if report(o2, "permuted declarations") {
				return
			}
			if d := multisetDiff(o2.unloc, base.unloc); d != "" {
				res.Violate("C11/P-permutation", "C11/declaration-order:"+ruleOf(d), fmt.Sprintf("permuting subroutine declarations changes the diagnostics (locations ignored):\n    %s\noriginal:\n%s\npermuted:\n%s", d, src, src2))
				return
			}
			res.Probe("permutation_checked")
		}
	}
	// the same program linted through falco's file resolver over a directory
	// tree whose module entries are in tape-chosen states
	if strings.HasPrefix(p.desc, "include:") && c.T.Bool(1, 3) {
		if !runDisk(c, p, src, mk) {
			return
		}
	}
	if c.Render {
		res.Rendering = map[string]any{"program": src, "modules": p.modules, "include_shape": p.desc, "diagnostics": len(base.diags), "map_orders_tried": R + 1, "maps_with_2plus_keys_iterated": multi, "resolve_calls": base.resolve}
	}
}

func hash(s string) uint32 {
	var h uint32 = 2166136261
	for i := 0; i < len(s); i++ {
		h ^= uint32(s[i])
		h *= 16777619
	}
	return h
}

func scale(n int) int {
	if s := os.Getenv("FALCOSIM_SCALE"); s != "" {
		if f, err := strconv.ParseFloat(s, 64); err == nil && f > 0 {
			n = int(float64(n) * f)
			if n < 1 {
				n = 1
			}
		}
	}
	return n
}

func Engine() *worker.Engine {
	return &worker.Engine{
		Name:       "lintsim",
		Properties: []string{"C11"},
		NumSampled: func(p, tier string) int {
			if tier == "thorough" {
				return scale(1500000)
			}
			return scale(100000)
		},
		Run: runC11,
	}
}
