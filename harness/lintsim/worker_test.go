package lintsim

import (
	"testing"

	"falcosim/sim/worker"
)

func TestWorker(t *testing.T) { worker.Main(t, Engine()) }
