package world

import (
	"encoding/json"
	"fmt"
	"net/http"
	"os"
	"path/filepath"
	"regexp"
	"sort"
	"strings"
	"time"

	ssched "falcosim/sim/sched"
	"falcosim/sim/simhook"
	"falcosim/sim/simio"
	"falcosim/sim/simmap"
	"falcosim/sim/simnet"
	"falcosim/sim/worker"

	"github.com/ysugimoto/falco/v2/ast"
	"github.com/ysugimoto/falco/v2/lexer"
	"github.com/ysugimoto/falco/v2/parser"
	"github.com/ysugimoto/falco/v2/snippet"
	"github.com/ysugimoto/falco/v2/snippet/remote"
	"github.com/ysugimoto/falco/v2/snippet/terraform"
)

// ---------------------------------------------------------------------------
// C20 — VCL generated from remote and Terraform resources is valid and
// faithful.
//
// Remote path: real NewFastlyApiFetcher → real FastlyClient → simulated Fastly
// API (round-tripper in http.DefaultTransport) → real snippet.Fetch (errgroup
// fan-out, per-dictionary / per-ACL goroutines, an RWMutex held across the
// version request) → real EmbedSnippets → real parser. The scheduler decides
// which pending API request completes next, after what latency, and which
// fail and how. Terraform path: plan JSON rendered from the same resource set
// → simio stream (chunking, stalls around the 10 s limit, cut, error) → real
// ParseStdin → NewTerraformFetcher → Fetch → as above.
// ---------------------------------------------------------------------------

var trickyValues = []string{`plain`, `a b`, `a%20b`, `100%`, `say "hi"`, `"}`, `{"k": "v"}`, "line1\nline2", `back\slash`, `%`, `%u0041`, `tab	x`, `ünï✓`, ``, `#notacomment`, `/* x */`, `";table evil{}`, `$ & | ; '`, "\nline", `%E3%81%82x`, `"quoted"`, `%%`, `%2`, "\ttab-first"}

func drawResources(c *worker.Ctx) *simnet.Resources {
	r := &simnet.Resources{}
	val := func() string {
		if c.T.Bool(1, 2) {
			return fmt.Sprintf("v%d", c.T.Draw(1000))
		}
		return trickyValues[c.T.Draw(len(trickyValues))]
	}
	nd := c.T.Draw(5)
	for i := 0; i < nd; i++ {
		d := simnet.Dict{ID: fmt.Sprintf("D%dx", i), Name: fmt.Sprintf("dict_%d", i), WriteOnly: c.T.Bool(1, 6)}
		n := c.T.Draw(8)
		seen := map[string]bool{}
		for k := 0; k < n; k++ {
			key := fmt.Sprintf("k%d", k)
			if c.T.Bool(1, 3) {
				key = val()
			}
			if seen[key] || key == "" {
				continue // keys are unique and non-empty in a Fastly dictionary
			}
			seen[key] = true
			d.Items = append(d.Items, simnet.DictItem{Key: key, Value: val()})
		}
		r.Dicts = append(r.Dicts, d)
	}
	na := c.T.Draw(5)
	for i := 0; i < na; i++ {
		a := simnet.Acl{ID: fmt.Sprintf("A%dx", i), Name: fmt.Sprintf("acl_%d", i)}
		n := c.T.Draw(6)
		for k := 0; k < n; k++ {
			e := simnet.AclEntry{Negated: c.T.Bool(1, 4)}
			if c.T.Bool(1, 3) {
				e.IP = fmt.Sprintf("2001:db8:%x::", c.T.Draw(65536))
				if c.T.Bool(1, 2) {
					m := int64(16 + c.T.Draw(113))
					e.Subnet = &m
				}
			} else {
				e.IP = fmt.Sprintf("%d.%d.%d.%d", c.T.Draw(256), c.T.Draw(256), c.T.Draw(256), c.T.Draw(256))
				if c.T.Bool(1, 2) {
					m := int64(c.T.Draw(33))
					e.Subnet = &m
				}
			}
			if c.T.Bool(1, 2) {
				e.Comment = val()
			}
			a.Entries = append(a.Entries, e)
		}
		r.Acls = append(r.Acls, a)
	}
	nb := c.T.Draw(6)
	bnames := []string{"origin", "my-backend", "api.v2", "a b", "x_1", "über"}
	for i := 0; i < nb; i++ {
		b := simnet.Backend{Name: fmt.Sprintf("%s%d", bnames[c.T.Draw(len(bnames))], i), Address: []string{"origin.example.com", "192.0.2.7", "h-" + fmt.Sprint(i) + ".internal"}[c.T.Draw(3)]}
		if c.T.Bool(1, 5) {
			b.Shield = []string{"tokyo-jp", "iad-va-us"}[c.T.Draw(2)]
		}
		r.Backends = append(r.Backends, b)
	}
	if nb > 0 {
		ndir := c.T.Draw(4)
		for i := 0; i < ndir; i++ {
			d := simnet.Director{Name: fmt.Sprintf("%s%d", []string{"dir", "my-dir", "d.1"}[c.T.Draw(3)], i), Type: 1 + c.T.Draw(3), Quorum: c.T.Draw(101), Retries: c.T.Draw(10)}
			m := c.T.Draw(nb + 1)
			for k := 0; k < m; k++ {
				d.Backends = append(d.Backends, r.Backends[c.T.Draw(nb)].Name)
			}
			r.Directors = append(r.Directors, d)
		}
	}
	ns := c.T.Draw(4)
	for i := 0; i < ns; i++ {
		r.Snippets = append(r.Snippets, simnet.Snippet{ID: fmt.Sprintf("S%dx", i), Name: fmt.Sprintf("snip_%d", i), Type: []string{"recv", "fetch", "deliver", "none", "init"}[c.T.Draw(5)],
			Content: "set req.http.X-S = \"" + fmt.Sprint(i) + "\";", Priority: c.T.Draw(200), Dynamic: c.T.Bool(1, 3)})
	}
	r.ForceSSL = c.T.Bool(1, 4)
	return r
}

var nonWord = regexp.MustCompile(`\W`)

func sanitize(s string) string { return nonWord.ReplaceAllString(s, "_") }

type genDecls struct {
	tables    map[string][]simnet.DictItem
	acls      map[string][]simnet.AclEntry
	backends  map[string]string // name → host
	directors map[string]*simnet.Director
	dirType   map[string]string
	parseErr  string
	dup       string
}

func exprString(e ast.Expression) (string, bool) {
	if s, ok := e.(*ast.String); ok {
		return s.Value, true
	}
	return "", false
}

// collectDecls parses every generated item with the real parser and collects
// the declarations it contains.
func collectDecls(items []snippet.Item) *genDecls {
	g := &genDecls{tables: map[string][]simnet.DictItem{}, acls: map[string][]simnet.AclEntry{}, backends: map[string]string{}, directors: map[string]*simnet.Director{}, dirType: map[string]string{}}
	for _, it := range items {
		vcl, err := func() (v *ast.VCL, err error) {
			defer func() {
				if r := recover(); r != nil {
					err = fmt.Errorf("parser panicked: %v", r)
				}
			}()
			return parser.New(lexer.NewFromString(it.Data, lexer.WithFile(it.Name))).ParseVCL()
		}()
		if err != nil {
			g.parseErr = fmt.Sprintf("item %s does not parse: %v\n%s", it.Name, err, clip(it.Data, 600))
			return g
		}
		for _, st := range vcl.Statements {
			switch t := st.(type) {
			case *ast.TableDeclaration:
				if _, ok := g.tables[t.Name.Value]; ok {
					g.dup = "table " + t.Name.Value
				}
				items := []simnet.DictItem{}
				for _, p := range t.Properties {
					v, _ := exprString(p.Value)
					items = append(items, simnet.DictItem{Key: p.Key.Value, Value: v})
				}
				g.tables[t.Name.Value] = items
			case *ast.AclDeclaration:
				if _, ok := g.acls[t.Name.Value]; ok {
					g.dup = "acl " + t.Name.Value
				}
				es := []simnet.AclEntry{}
				for _, cd := range t.CIDRs {
					e := simnet.AclEntry{IP: cd.IP.Value}
					if cd.Inverse != nil {
						e.Negated = cd.Inverse.Value
					}
					if cd.Mask != nil {
						m := cd.Mask.Value
						e.Subnet = &m
					}
					es = append(es, e)
				}
				g.acls[t.Name.Value] = es
			case *ast.BackendDeclaration:
				host := ""
				for _, p := range t.Properties {
					if p.Key.Value == "host" {
						host, _ = exprString(p.Value)
					}
				}
				if _, ok := g.backends[t.Name.Value]; ok {
					g.dup = "backend " + t.Name.Value
				}
				g.backends[t.Name.Value] = host
			case *ast.DirectorDeclaration:
				if strings.HasPrefix(t.Name.Value, "ssl_shield_") {
					continue // shield directors are synthesised, they come from no director resource
				}
				d := &simnet.Director{Name: t.Name.Value, Quorum: -1}
				for _, p := range t.Properties {
					switch pp := p.(type) {
					case *ast.DirectorProperty:
						switch pp.Key.Value {
						case "quorum":
							if pf, ok := pp.Value.(*ast.PostfixExpression); ok {
								if n, ok := pf.Left.(*ast.Integer); ok {
									d.Quorum = int(n.Value)
								}
							}
						case "retries":
							if n, ok := pp.Value.(*ast.Integer); ok {
								d.Retries = int(n.Value)
							}
						}
					case *ast.DirectorBackendObject:
						for _, v := range pp.Values {
							if v.Key.Value == "backend" {
								if id, ok := v.Value.(*ast.Ident); ok {
									d.Backends = append(d.Backends, id.Value)
								}
							}
						}
					}
				}
				g.directors[t.Name.Value] = d
				g.dirType[t.Name.Value] = t.DirectorType.Value
			}
		}
	}
	return g
}

func sameSubnet(a, b *int64) bool {
	if a == nil || b == nil {
		return a == nil && b == nil
	}
	return *a == *b
}

// faithful is oracle F1: declarations in bijection with the resources.
// sortedItems: the Terraform path sorts dictionary items by key.
func faithful(r *simnet.Resources, g *genDecls, sortedItems bool) (key, detail string) {
	if g.parseErr != "" {
		return "C20/unparseable:" + parseErrClass(g.parseErr), g.parseErr
	}
	if g.dup != "" {
		return "C20/duplicate-declaration", g.dup + " declared twice"
	}
	if len(g.tables) != len(r.Dicts) {
		return "C20/dictionary:count", fmt.Sprintf("%d tables generated for %d dictionaries", len(g.tables), len(r.Dicts))
	}
	for _, d := range r.Dicts {
		got, ok := g.tables[d.Name]
		if !ok {
			return "C20/dictionary:missing", "no table for dictionary " + d.Name
		}
		want := append([]simnet.DictItem{}, d.Items...)
		if d.WriteOnly {
			want = nil // private dictionary: items cannot be read
		}
		if sortedItems {
			sort.Slice(want, func(i, j int) bool { return want[i].Key < want[j].Key })
		}
		if len(got) != len(want) {
			return "C20/dictionary:items-count", fmt.Sprintf("dictionary %s has %d items, its table %d\nwant %q\ngot  %q", d.Name, len(want), len(got), want, got)
		}
		for i := range want {
			if got[i] != want[i] {
				return "C20/dictionary:item-value:" + charClass(want[i].Key+want[i].Value), fmt.Sprintf("dictionary %s item %d: stored (%q, %q), generated table declares (%q, %q)", d.Name, i, want[i].Key, want[i].Value, got[i].Key, got[i].Value)
			}
		}
	}
	if len(g.acls) != len(r.Acls) {
		return "C20/acl:count", fmt.Sprintf("%d acls generated for %d ACLs", len(g.acls), len(r.Acls))
	}
	for _, a := range r.Acls {
		got, ok := g.acls[a.Name]
		if !ok {
			return "C20/acl:missing", "no acl for " + a.Name
		}
		if len(got) != len(a.Entries) {
			return "C20/acl:entries-count", fmt.Sprintf("ACL %s has %d entries, generated acl %d", a.Name, len(a.Entries), len(got))
		}
		for i, e := range a.Entries {
			if got[i].IP != e.IP || got[i].Negated != e.Negated || !sameSubnet(got[i].Subnet, e.Subnet) {
				return "C20/acl:entry", fmt.Sprintf("ACL %s entry %d: stored ip=%s negated=%v subnet=%v, generated ip=%s negated=%v subnet=%v", a.Name, i, e.IP, e.Negated, deref(e.Subnet), got[i].IP, got[i].Negated, deref(got[i].Subnet))
			}
		}
	}
	if len(g.backends) != len(r.Backends) {
		return "C20/backend:count", fmt.Sprintf("%d backends generated for %d", len(g.backends), len(r.Backends))
	}
	for _, b := range r.Backends {
		host, ok := g.backends["F_"+sanitize(b.Name)]
		if !ok {
			return "C20/backend:missing", fmt.Sprintf("no backend F_%s for %q", sanitize(b.Name), b.Name)
		}
		if host != b.Address {
			return "C20/backend:address", fmt.Sprintf("backend %q address %q, generated .host = %q", b.Name, b.Address, host)
		}
	}
	if len(g.directors) != len(r.Directors) {
		return "C20/director:count", fmt.Sprintf("%d directors generated for %d", len(g.directors), len(r.Directors))
	}
	for _, d := range r.Directors {
		got, ok := g.directors[sanitize(d.Name)]
		if !ok {
			return "C20/director:missing", fmt.Sprintf("no director %s for %q", sanitize(d.Name), d.Name)
		}
		wantType := map[int]string{1: "random", 2: "hash", 3: "client"}[d.Type]
		if g.dirType[sanitize(d.Name)] != wantType {
			return "C20/director:type", fmt.Sprintf("director %q type %s, generated %s", d.Name, wantType, g.dirType[sanitize(d.Name)])
		}
		if got.Quorum != d.Quorum {
			return "C20/director:quorum", fmt.Sprintf("director %q quorum %d, generated %d", d.Name, d.Quorum, got.Quorum)
		}
		if len(got.Backends) != len(d.Backends) {
			return "C20/director:members-count", fmt.Sprintf("director %q has %d members, generated %d", d.Name, len(d.Backends), len(got.Backends))
		}
		for i, m := range d.Backends {
			want := "F_" + sanitize(m)
			if got.Backends[i] != want {
				return "C20/director:member-reference", fmt.Sprintf("director %q member %q must reference the declared backend %s, generated .backend = %s", d.Name, m, want, got.Backends[i])
			}
			if _, ok := g.backends[got.Backends[i]]; !ok {
				return "C20/director:member-undeclared", fmt.Sprintf("director %q references %s which is not declared", d.Name, got.Backends[i])
			}
		}
	}
	return "", ""
}

func deref(p *int64) any {
	if p == nil {
		return nil
	}
	return *p
}

func parseErrClass(s string) string {
	switch {
	case strings.Contains(s, "Remote.EdgeDictionary"):
		return "dictionary"
	case strings.Contains(s, "Remote.Acl"):
		return "acl"
	case strings.Contains(s, "Remote.Backend"):
		return "backend"
	case strings.Contains(s, "Remote.Director"):
		return "director"
	}
	return "other"
}

func charClass(s string) string {
	switch {
	case strings.Contains(s, "\n"):
		return "newline"
	case strings.Contains(s, `"`):
		return "quote"
	case strings.Contains(s, "%"):
		return "percent"
	case strings.Contains(s, "\\"):
		return "backslash"
	}
	return "other"
}

// planJSON renders the resource set as `terraform show -json` planned values.
// svcSpec is one fastly_service_vcl of a generated plan.
type svcSpec struct {
	ID, Name string
	R        *simnet.Resources
}

// planJSON renders a Terraform plan holding every given service; each
// service's entries, items and dynamic snippet contents are separate
// resources tied to it by service_id, in root or child modules.
func planJSON(c *worker.Ctx, svcs []svcSpec) []byte {
	var resources, child []any
	for _, sv := range svcs {
		rs, ch := planService(c, sv)
		resources = append(resources, rs...)
		child = append(child, ch...)
	}
	root := map[string]any{"resources": resources}
	if len(child) > 0 {
		root["child_modules"] = []any{map[string]any{"resources": child}}
	}
	b, _ := json.Marshal(map[string]any{"format_version": "1.0", "planned_values": map[string]any{"root_module": root}})
	return b
}

func planService(c *worker.Ctx, sv svcSpec) (resources, child []any) {
	r := sv.R
	prov := "registry.terraform.io/fastly/fastly"
	svc := map[string]any{"id": sv.ID, "name": sv.Name}
	var acls, dicts, backs, dirs, snips, dyns []any
	for _, a := range r.Acls {
		acls = append(acls, map[string]any{"name": a.Name})
	}
	for _, d := range r.Dicts {
		dicts = append(dicts, map[string]any{"name": d.Name, "write_only": d.WriteOnly})
	}
	for _, b := range r.Backends {
		m := map[string]any{"name": b.Name, "address": b.Address}
		if b.Shield != "" {
			m["shield"] = b.Shield
		}
		backs = append(backs, m)
	}
	for _, d := range r.Directors {
		bs := d.Backends
		if bs == nil {
			bs = []string{}
		}
		dirs = append(dirs, map[string]any{"name": d.Name, "type": d.Type, "backends": bs, "retries": d.Retries, "quorum": d.Quorum})
	}
	for _, s := range r.Snippets {
		if s.Dynamic {
			dyns = append(dyns, map[string]any{"name": s.Name, "type": s.Type, "priority": s.Priority, "snippet_id": s.ID})
		} else {
			snips = append(snips, map[string]any{"name": s.Name, "type": s.Type, "priority": s.Priority, "content": s.Content})
		}
	}
	svc["acl"], svc["dictionary"], svc["backend"], svc["director"], svc["snippet"], svc["dynamicsnippet"] = acls, dicts, backs, dirs, snips, dyns
	if r.ForceSSL {
		svc["request_setting"] = []any{map[string]any{"force_ssl": true}}
	}
	resources = []any{map[string]any{"provider_name": prov, "type": "fastly_service_vcl", "values": svc}}
	for _, a := range r.Acls {
		var es []any
		for _, e := range a.Entries {
			m := map[string]any{"ip": e.IP, "negated": e.Negated, "comment": e.Comment, "subnet": ""}
			if e.Subnet != nil {
				m["subnet"] = fmt.Sprint(*e.Subnet)
			}
			es = append(es, m)
		}
		res := map[string]any{"provider_name": prov, "type": "fastly_service_acl_entries", "index": a.Name, "values": map[string]any{"service_id": sv.ID, "entry": es}}
		if c.T.Bool(1, 3) {
			child = append(child, res)
		} else {
			resources = append(resources, res)
		}
	}
	for _, d := range r.Dicts {
		if d.WriteOnly {
			continue
		}
		items := map[string]string{}
		for _, it := range d.Items {
			items[it.Key] = it.Value
		}
		res := map[string]any{"provider_name": prov, "type": "fastly_service_dictionary_items", "index": d.Name, "values": map[string]any{"service_id": sv.ID, "items": items}}
		if c.T.Bool(1, 3) {
			child = append(child, res)
		} else {
			resources = append(resources, res)
		}
	}
	for _, s := range r.Snippets {
		if s.Dynamic {
			resources = append(resources, map[string]any{"provider_name": prov, "type": "fastly_service_dynamic_snippet_content", "values": map[string]any{"service_id": sv.ID, "snippet_id": s.ID, "content": s.Content}})
		}
	}
	return resources, child
}

func runC20(c *worker.Ctx) {
	res := c.Res
	terra := c.T.Bool(1, 3)
	r := drawResources(c)
	faulty := c.T.Bool(1, 2)
	// an outage rather than a glitch: an endpoint that has failed keeps failing
	// the same way for every later request (retries included)
	outage := faulty && c.T.Bool(1, 3)
	down := map[string]simnet.APIFault{}
	var s *ssched.Sched
	var snips *snippet.Snippets
	var ferr error
	var panicV any
	var panicWhere string
	finished := false
	var api *simnet.FastlyAPI
	var rd *simio.Reader
	var plan simio.Plan
	injected := map[string]bool{}
	harnessFail := ""
	loopEvery := 0
	// Remote path, a third of the cases: the run's outcome goes through the
	// fetcher's on-disk cache and a second, fault-free run follows.
	cacheHistory := !terra && c.T.Bool(1, 3)
	apiHealthy := false
	type laterRun struct {
		ran, fromCache bool
		snips          *snippet.Snippets
		err            error
	}
	var second, third, fourth laterRun
	refreshHistory := cacheHistory && c.T.Bool(1, 2)
	tornCache, tornDone := 0, false // 1: the cache file is left empty, 2: cut in the middle
	if cacheHistory && c.T.Bool(1, 4) {
		tornCache = 1 + c.T.Draw(2)
	}
	var secondR *simnet.Resources // what the second run had to be faithful to, when r was edited after it
	edited := ""
	if cacheHistory {
		dir, err := os.MkdirTemp(".", "c20cache-")
		if err != nil {
			panic("c20: cannot create the cache directory: " + err.Error())
		}
		dir, _ = filepath.Abs(dir)
		oldXDG, hadXDG := os.LookupEnv("XDG_CACHE_HOME")
		os.Setenv("XDG_CACHE_HOME", dir)
		defer func() {
			if hadXDG {
				os.Setenv("XDG_CACHE_HOME", oldXDG)
			} else {
				os.Unsetenv("XDG_CACHE_HOME")
			}
			os.RemoveAll(dir)
		}()
	}
	// Terraform path: the plan may hold further services; cmd/falco builds one
	// fetcher for the plan and, service after service, selects it with SetName
	// and generates. Every service must get exactly its own resources.
	svcs := []svcSpec{{"SID", "svc", r}}
	type svcOut struct {
		snips *snippet.Snippets
		err   error
		ran   bool
	}
	outs := map[string]*svcOut{}
	if terra && c.T.Bool(1, 2) {
		for _, d := range [][2]string{{"SID2", "svc-b"}, {"SID3", "a svc"}}[:1+c.T.Draw(2)] {
			svcs = append(svcs, svcSpec{d[0], d[1], drawResources(c)})
		}
		p := c.T.Perm(len(svcs))
		shuffled := make([]svcSpec, len(svcs))
		for i, j := range p {
			shuffled[i] = svcs[j]
		}
		svcs = shuffled
	}
	ev := bubble(c.TB, func() {
		s = ssched.New(c.T)
		s.KeepTrace = c.Render
		simhook.Install(s)
		defer simhook.Uninstall()
		simhook.InstallPanicHook(func(v any, where string) {
			if panicV == nil {
				panicV, panicWhere = v, where
			}
		})
		defer simhook.UninstallPanicHook()
		simmap.Install(func(n int) []int { return c.T.Perm(n) })
		defer simmap.Uninstall()
		// preemption inside the loops of snippet/… (rendering, escaping): off in
		// half of the cases, else every k-th loop iteration is a scheduling point
		loopEvery = []int{0, 0, 0, 1, 5, 40}[c.T.Draw(6)]
		simhook.SetLoopEvery(loopEvery)
		defer simhook.SetLoopEvery(0)
		done := make(chan struct{}, 1)
		go s.Run()
		if terra {
			data := planJSON(c, svcs)
			plan = simio.DrawPlan(c.T, len(data), faulty)
			if faulty && c.T.Bool(1, 3) {
				plan.Stall = []time.Duration{10*time.Second - 50*time.Millisecond, 10*time.Second + 50*time.Millisecond, 3 * time.Second, time.Hour}[c.T.Draw(4)]
				plan.StallAt = c.T.Draw(len(data) + 1)
			}
			rd = simio.NewReader(data, plan, c.T)
			s.Go("terraform", func() {
				defer func() {
					if v := recover(); v != nil {
						if hp, ok := v.(harnessPanic); ok {
							harnessFail = string(hp)
						} else if panicV == nil {
							panicV, panicWhere = v, innermostFalcoFrame(3)
						}
					}
					done <- struct{}{}
				}()
				services, err := terraform.ParseStdin(rd)
				if err != nil {
					ferr = err
					finished = true
					return
				}
				fetcher := terraform.NewTerraformFetcher(services)
				if len(svcs) == 1 && c.T.Bool(1, 2) {
					// a fetcher on which no service was selected serves the whole (one-service) plan
					snips, ferr = snippet.Fetch(fetcher)
					finished = true
					return
				}
				for _, sv := range services { // the order cmd/falco walks its resolvers in
					fetcher.SetName(sv.Name)
					o := &svcOut{ran: true}
					o.snips, o.err = snippet.Fetch(fetcher)
					outs[sv.Name] = o
				}
				if o := outs["svc"]; o != nil {
					snips, ferr = o.snips, o.err
				} else {
					ferr = fmt.Errorf("service %q of the plan was not among the parsed services", "svc")
				}
				finished = true
			})
		} else {
			api = simnet.NewFastlyAPI(r, func(path string, n int) simnet.APIFault {
				if f, ok := down[path]; ok && !apiHealthy {
					// an outage: this endpoint keeps answering the way it did
					return f
				}
				f := simnet.APIFault{Kind: "ok", Latency: time.Duration(c.T.Draw(400)) * time.Millisecond}
				if outage {
					defer func() {
						if f.Kind != "ok" && f.Kind != "slow-within-timeout" {
							down[path] = f
						}
					}()
				}
				if faulty && !apiHealthy && c.T.Bool(1, 6) {
					switch c.T.Draw(7) {
					case 0:
						f.Kind, f.Status = "status", []int{401, 404, 429, 500, 503}[c.T.Draw(5)]
					case 1:
						f.Kind, f.CutAt = "cut-json", c.T.Draw(1<<16)
					case 2:
						f.Kind, f.CutAt = "stall", c.T.Draw(1<<16)
					case 3:
						f.Kind = "connect-error"
					case 4:
						f.Kind = "html"
					case 5:
						f.Kind, f.Latency = "slow-past-timeout", 5*time.Second+50*time.Millisecond
					default:
						// the 5 s budget covers the version, list and item requests of one resource kind together
						f.Kind, f.Latency = "slow-within-timeout", 1200*time.Millisecond
					}
					if f.Kind != "slow-within-timeout" {
						injected[f.Kind] = true
					}
				}
				return f
			})
			api.S = s
			old := http.DefaultTransport
			http.DefaultTransport = api
			defer func() { http.DefaultTransport = old }()
			s.Go("fetch", func() {
				defer func() {
					if v := recover(); v != nil {
						if hp, ok := v.(harnessPanic); ok {
							harnessFail = string(hp)
						} else if panicV == nil {
							panicV, panicWhere = v, innermostFalcoFrame(3)
						}
					}
					done <- struct{}{}
				}()
				f1 := remote.NewFastlyApiFetcher("SID", "KEY", 5*time.Second)
				snips, ferr = snippet.Fetch(f1)
				if cacheHistory {
					// What falco's runner does with the outcome, whatever it is: hand it
					// to the fetcher's cache. Then a second run, with a healthy API,
					// starts from what the first one left on disk.
					f1.WriteCache(snips)
					// the cache file as a crash of that run (or a full disk) may leave it:
					// cut to nothing, or cut in the middle
					if tornCache > 0 {
						if files, _ := filepath.Glob(filepath.Join(os.Getenv("XDG_CACHE_HOME"), "falco", "*.json")); len(files) > 0 {
							for _, f := range files {
								if b, err := os.ReadFile(f); err == nil {
									cut := 0
									if tornCache == 2 {
										cut = len(b) / 2
									}
									os.WriteFile(f, b[:cut], 0o644)
									tornDone = true
								}
							}
						}
					}
					apiHealthy = true
					f2 := remote.NewFastlyApiFetcher("SID", "KEY", 5*time.Second)
					second.ran = true
					if cached := f2.LookupCache(false); cached != nil {
						second.snips, second.fromCache = cached, true
					} else {
						second.snips, second.err = snippet.Fetch(f2)
					}
					if refreshHistory && second.snips != nil && second.err == nil {
						// ... the runner caches what it has; then an item changes on the
						// Fastly side (items and entries are not versioned: the service
						// version stays), the user runs with --refresh, and once more
						// without.
						f2.WriteCache(second.snips)
						secondR = cloneResources(r)
						edited = editUnversioned(c, r)
						f3 := remote.NewFastlyApiFetcher("SID", "KEY", 5*time.Second)
						third.ran = true
						if cached := f3.LookupCache(true); cached != nil {
							third.snips, third.fromCache = cached, true
						} else {
							third.snips, third.err = snippet.Fetch(f3)
						}
						if third.snips != nil && third.err == nil {
							f3.WriteCache(third.snips)
						}
						f4 := remote.NewFastlyApiFetcher("SID", "KEY", 5*time.Second)
						fourth.ran = true
						if cached := f4.LookupCache(false); cached != nil {
							fourth.snips, fourth.fromCache = cached, true
						} else {
							fourth.snips, fourth.err = snippet.Fetch(f4)
						}
					}
				}
				finished = true
			})
		}
		<-done
		// let stragglers (goroutines still waiting for API answers) drain
		s.Stop()
		res.SimSeconds += time.Since(time.Date(2000, 1, 1, 0, 0, 0, 0, time.UTC)).Seconds()
	})
	simhook.Uninstall()
	simhook.UninstallPanicHook()
	simmap.Uninstall()
	simhook.SetLoopEvery(0)
	if harnessFail != "" {
		panic("harness error inside a task: " + harnessFail)
	}
	if loopEvery > 0 {
		res.Probe("preempted_inside_rendering_loops")
	}
	path := "remote"
	if terra {
		path = "terraform"
	}
	if api != nil {
		for k, v := range api.Fired {
			for i := 0; i < v; i++ {
				res.Fault("api:" + k)
			}
		}
		if len(api.Trips) >= 2 {
			res.Probe("concurrent_api_requests")
		}
	}
	if terra {
		if plan.Terminal != "eof" {
			res.Fault("stdin:" + plan.Terminal)
			injected["stdin-"+plan.Terminal] = true
		}
		if plan.Stall > 0 {
			res.Fault("stdin:stall")
			if plan.Stall > 10*time.Second {
				injected["stdin-stall"] = true
			}
		}
	}
	c.Logf("c20 %s faulty=%v dicts=%d acls=%d backends=%d directors=%d err=%v trace=%016x", path, faulty, len(r.Dicts), len(r.Acls), len(r.Backends), len(r.Directors), ferr != nil, s.TraceHash())
	desc := func() string {
		b, _ := json.Marshal(r)
		return clip(string(b), 2500)
	}
	switch {
	case panicV != nil:
		res.Violate("C20/no-crash", "C20/panic:"+path+":"+panicWhere+":"+clip(fmt.Sprint(panicV), 60), fmt.Sprintf("generation crashed (%s): %v\nresources: %s", path, panicV, desc()))
	case strings.HasPrefix(ev, "deadlock") || s.Deadlock != "":
		res.Violate("C20/progress", "C20/deadlock:"+path, fmt.Sprintf("fetching deadlocked: %s %s\nresources: %s", clip(ev, 200), s.Deadlock, desc()))
	case strings.HasPrefix(ev, "panic"):
		res.Violate("C20/no-crash", "C20/bubble-panic:"+path, clip(ev, 600))
	case !finished:
		res.Violate("C20/progress", "C20/did-not-finish:"+path, desc())
	}
	outcome := "error"
	judge := func(r *simnet.Resources, snips *snippet.Snippets, ferr error, which string) {
		desc := func() string {
			b, _ := json.Marshal(r)
			return which + clip(string(b), 2500)
		}
		if ferr != nil {
			res.Probe("fetch_error_reported")
			if len(injected) == 0 {
				// F1: fault-free run must succeed
				res.Violate("C20/F1-faithful", "C20/unexpected-error:"+path+":"+clip(numRe.ReplaceAllString(firstLine(ferr.Error()), "N"), 50), fmt.Sprintf("no fault was injected but generation failed: %v\nresources: %s", ferr, desc()))
			}
		} else {
			outcome = "ok"
			var items []snippet.Item
			var eerr error
			func() {
				defer func() {
					if v := recover(); v != nil {
						eerr = fmt.Errorf("EmbedSnippets panicked: %v", v)
					}
				}()
				items, eerr = snips.EmbedSnippets(false)
			}()
			if eerr != nil {
				res.Violate("C20/F1-faithful", "C20/embed-error:"+path, fmt.Sprintf("EmbedSnippets failed: %v\nresources: %s", eerr, desc()))
			} else {
				// only the resource declarations are compared (dictionaries, ACLs, backends, directors)
				var declItems []snippet.Item
				for _, it := range items {
					if strings.HasPrefix(it.Name, "Remote.EdgeDictionary:") || strings.HasPrefix(it.Name, "Remote.Acl:") || strings.HasPrefix(it.Name, "Remote.Backend:") || strings.HasPrefix(it.Name, "Remote.Director:") {
						declItems = append(declItems, it)
					}
				}
				g := collectDecls(declItems)
				if key, detail := faithful(r, g, terra); key != "" {
					oracle := "C20/F1-faithful"
					if len(injected) > 0 {
						oracle = "C20/F3-fault-hidden"
						key += ":under-fault"
					}
					res.Violate(oracle, key, fmt.Sprintf("%s (%s path, injected faults %v)\nresources: %s", detail, path, keysOf(injected), desc()))
				} else if len(injected) > 0 {
					res.Probe("complete_result_despite_fault")
				}
			}
		}
	}
	if len(res.Violations) == 0 {
		rFirst := r
		if secondR != nil {
			rFirst = secondR // r was edited after the second run: the first two runs saw the earlier state
		}
		judge(rFirst, snips, ferr, "")
		if second.ran && len(res.Violations) == 0 {
			res.Probe("second_run_after_cache_write")
			if tornDone {
				res.Fault("cache-file:torn")
			}
			if second.fromCache {
				res.Probe("second_run_served_from_cache")
			}
			keepInjected, keepOutcome := injected, outcome
			injected = map[string]bool{} // the second run met no fault: it must succeed and be faithful
			how := "(second run with a healthy API after the first run's outcome was handed to the cache; "
			if tornDone {
				how += []string{"", "the cache file was then cut to zero length, as a crash while writing it leaves it; ", "the cache file was then cut in the middle; "}[tornCache]
			}
			if second.fromCache {
				how += "served from the cache file; "
			} else {
				how += "fetched again; "
			}
			if ferr != nil {
				how += "the first run had failed: " + clip(firstLine(ferr.Error()), 80) + ") "
			} else {
				how += "the first run had succeeded) "
			}
			r2 := r
			if secondR != nil {
				r2 = secondR
			}
			judge(r2, second.snips, second.err, how)
			for i := range res.Violations {
				res.Violations[i].Key = strings.Replace(res.Violations[i].Key, "C20/", "C20/second-run:", 1)
			}
			for k, lr := range []laterRun{third, fourth} {
				if !lr.ran || len(res.Violations) > 0 {
					continue
				}
				which := []string{"run with --refresh", "run without --refresh after the refreshed one"}[k]
				res.Probe([]string{"refresh_run", "run_after_refresh"}[k])
				if lr.fromCache {
					res.Probe([]string{"refresh_run_served_from_cache", "run_after_refresh_served_from_cache"}[k])
				}
				judge(r, lr.snips, lr.err, fmt.Sprintf("(%s, served from the cache file: %v; before it %s on the Fastly side, the service version unchanged, and the cache held the earlier state) ", which, lr.fromCache, edited))
				for i := range res.Violations {
					res.Violations[i].Key = strings.Replace(res.Violations[i].Key, "C20/", "C20/after-refresh:", 1)
				}
			}
			injected, outcome = keepInjected, keepOutcome
		}
		if len(svcs) > 1 && ferr == nil {
			res.Probe("terraform_multi_service_plan")
			for _, sv := range svcs {
				if sv.Name == "svc" || len(res.Violations) > 0 {
					continue
				}
				o := outs[sv.Name]
				if o == nil {
					res.Violate("C20/F1-faithful", "C20/service-missing:terraform", fmt.Sprintf("service %q of the plan was not among the parsed services\nplan services: %d", sv.Name, len(svcs)))
					continue
				}
				keep := outcome
				judge(sv.R, o.snips, o.err, fmt.Sprintf("(service %q, selected with SetName after the services before it) ", sv.Name))
				outcome = keep
			}
		}
	}
	shape := fmt.Sprintf("%d/%d/%d/%d", len(r.Dicts), len(r.Acls), len(r.Backends), len(r.Directors))
	res.Sig = fmt.Sprintf("%s|%s|%016x|%v|%s", path, shape, s.TraceHash(), keysOf(injected), outcome)
	res.Nontrivial = (api != nil && len(api.Trips) >= 2) || (terra && !plan.Trivial())
	if c.Render {
		tr := s.Trace
		if len(tr) > 400 {
			tr = tr[:400]
		}
		rr := map[string]any{"path": path, "resources": json.RawMessage(mustJSON(r)), "faults": keysOf(injected), "outcome": outcome, "schedule": tr}
		if ferr != nil {
			rr["error"] = clip(ferr.Error(), 300)
		}
		if terra {
			rr["stdin_plan"] = plan.String()
		}
		res.Rendering = rr
	}
}

var numRe = regexp.MustCompile(`\d+`)

func firstLine(s string) string {
	if i := strings.Index(s, "\n"); i >= 0 {
		return s[:i]
	}
	return s
}

func mustJSON(v any) []byte {
	b, _ := json.Marshal(v)
	if len(b) > 3000 {
		b, _ = json.Marshal(clip(string(b), 3000))
	}
	return b
}

func keysOf(m map[string]bool) []string {
	var ks []string
	for k := range m {
		ks = append(ks, k)
	}
	sort.Strings(ks)
	return ks
}

// cloneResources copies the resource set (mustJSON is for rendering: it clips).
func cloneResources(r *simnet.Resources) *simnet.Resources {
	var out simnet.Resources
	b, err := json.Marshal(r)
	if err == nil {
		err = json.Unmarshal(b, &out)
	}
	if err != nil {
		panic(harnessPanic("c20: cannot clone the resource set: " + err.Error()))
	}
	return &out
}

// harnessPanic marks a panic raised by the harness itself inside a task that
// also runs code under test: it is re-raised outside the bubble (machinery
// trouble, exit 2) and never attributed to falco.
type harnessPanic string

// editUnversioned changes something Fastly does not version: a dictionary
// item's value, or an ACL entry. It says what it did.
func editUnversioned(c *worker.Ctx, r *simnet.Resources) string {
	for i := range r.Dicts {
		if !r.Dicts[i].WriteOnly && len(r.Dicts[i].Items) > 0 {
			k := c.T.Draw(len(r.Dicts[i].Items))
			r.Dicts[i].Items[k].Value = fmt.Sprintf("edited-%d", c.T.Draw(1000))
			return fmt.Sprintf("item %d of dictionary %s got a new value", k, r.Dicts[i].Name)
		}
	}
	for i := range r.Acls {
		if len(r.Acls[i].Entries) > 0 {
			k := c.T.Draw(len(r.Acls[i].Entries))
			r.Acls[i].Entries[k].Negated = !r.Acls[i].Entries[k].Negated
			return fmt.Sprintf("entry %d of ACL %s had its negation flipped", k, r.Acls[i].Name)
		}
	}
	return "nothing could be edited (no items or entries)"
}
