package world

import (
	"fmt"
	"os"
	"path/filepath"
	"strings"
	"time"

	"falcosim/sim/simfs"
	"falcosim/sim/worker"

	"github.com/ysugimoto/falco/v2/config"
	icontext "github.com/ysugimoto/falco/v2/interpreter/context"
	"github.com/ysugimoto/falco/v2/tester"
)

// ---- C08 workload: the unit-test runner ----------------------------------------
//
// The real tester.Tester runs a generated *.test.vcl against a generated main
// VCL inside the bubble. Oracle: Run returns a factory or an error; it does not
// crash (a panic on the goroutine tester starts kills the worker and is
// attributed through the breadcrumb) and does not hang.

var testFns = []string{
	"assert", "assert.contains", "assert.ends_with", "assert.equal", "assert.equal_fold", "assert.error", "assert.false", "assert.is_json", "assert.is_notset",
	"assert.match", "assert.not_contains", "assert.not_equal", "assert.not_error", "assert.not_match", "assert.not_restart", "assert.not_state",
	"assert.not_strict_equal", "assert.not_subroutine_called", "assert.restart", "assert.starts_with", "assert.state", "assert.strict_equal",
	"assert.subroutine_called", "assert.true", "testing.call_subroutine", "testing.fixed_access_rate", "testing.fixed_time", "testing.get_env",
	"testing.inject_variable", "testing.inspect", "testing.mock", "testing.override_host", "testing.restore_all_mocks", "testing.restore_mock",
	"testing.set_backend_health", "testing.table_merge", "testing.table_set",
}

var testArgs = []string{`"vcl_recv"`, `"vcl_fetch"`, `"nosuch"`, `""`, `"helper"`, `"fn_b"`, `req.http.X-A`, `req.http.Not-Set`, `"a"`, `1`, `-1`, `0`, `9223372036854775807`, `1.5`, `true`, `false`, `now`,
	`10s`, `lookup`, `pass`, `error`, `restart`, `deliver`, `tbl_s`, `F_origin`, `nosuchid`, `client.ip`, `"client.ip"`, `"req.http.X-A"`, `"192.0.2.1"`, `"{\"a\":1}"`, `"[a-"`, `"^a"`, `"std.tolower"`, `"mock_lower"`, `600`, `"2020-01-01 00:00:00"`, `"garbage time"`, `obj.status`, `beresp.ttl`, `var.s`}

func testerFiles(c *worker.Ctx) (mainVCL, testVCL string) {
	var m strings.Builder
	m.WriteString("backend F_origin { .host = \"origin.test\"; .port = \"80\"; }\ntable tbl_s { \"k\": \"v\" }\n")
	m.WriteString("sub helper { set req.http.X-H = \"h\"; }\nsub fn_b(STRING var.p) BOOL { return var.p == \"a\"; }\nsub mock_lower(STRING var.p) STRING { return \"mocked\"; }\n")
	recvTail := []string{"return(lookup);", "return(pass);", "error 600;", "restart;", "call helper; return(lookup);", ""}[c.T.Draw(6)]
	fmt.Fprintf(&m, "sub vcl_recv {\n  #FASTLY RECV\n  set req.http.X-A = std.tolower(\"ABC\");\n  %s\n}\n", recvTail)
	m.WriteString("sub vcl_fetch {\n  #FASTLY FETCH\n  set beresp.ttl = 60s;\n  return(deliver);\n}\nsub vcl_error {\n  #FASTLY ERROR\n  synthetic \"e\";\n  return(deliver);\n}\n")

	var t strings.Builder
	n := 1 + c.T.Draw(3)
	describe := c.T.Bool(1, 4)
	if describe {
		t.WriteString("describe group_a {\n")
	}
	for i := 0; i < n; i++ {
		scope := []string{"recv", "fetch", "deliver", "error", "recv,fetch", "log", "bogus"}[c.T.Draw(7)]
		ann := "// @scope: " + scope
		if c.T.Bool(1, 8) {
			ann += "\n// @skip"
		}
		if c.T.Bool(1, 8) {
			ann = "// @suite: named test " + fmt.Sprint(i) + "\n" + ann
		}
		fmt.Fprintf(&t, "%s\nsub test_%d {\n  declare local var.s STRING;\n", ann, i)
		k := 1 + c.T.Draw(5)
		for j := 0; j < k; j++ {
			if c.T.Bool(1, 5) {
				fmt.Fprintf(&t, "  set %s = %s;\n", []string{"req.http.X-A", "var.s", "req.url", "req.backend"}[c.T.Draw(4)], testArgs[c.T.Draw(len(testArgs))])
				continue
			}
			fn := testFns[c.T.Draw(len(testFns))]
			na := c.T.Draw(4)
			args := make([]string, na)
			for a := range args {
				args[a] = testArgs[c.T.Draw(len(testArgs))]
			}
			fmt.Fprintf(&t, "  %s(%s);\n", fn, strings.Join(args, ", "))
		}
		t.WriteString("}\n")
	}
	if describe {
		if c.T.Bool(1, 2) {
			t.WriteString("before_each {\n  set req.http.X-B = \"b\";\n}\n")
		}
		t.WriteString("}\n")
	}
	return m.String(), t.String()
}

var testerDirN int

func runTesterWorkload(c *worker.Ctx) (wdesc string, violation func()) {
	res := c.Res
	mainVCL, testVCL := testerFiles(c)
	dir, err := os.MkdirTemp(".", "tester-")
	if err != nil {
		panic(err)
	}
	defer os.RemoveAll(dir)
	abs, _ := filepath.Abs(dir)
	os.WriteFile(filepath.Join(abs, "main.vcl"), []byte(mainVCL), 0o644)
	os.WriteFile(filepath.Join(abs, "main.test.vcl"), []byte(testVCL), 0o644)
	var runErr error
	var factory *tester.TestFactory
	var panicV any
	var stack string
	returned := false
	ev := bubble(c.TB, func() {
		start := time.Now()
		func() {
			defer func() {
				if v := recover(); v != nil {
					panicV, stack = v, innermostFalcoFrame(3)
				}
			}()
			store := simfs.New(mainVCL, nil)
			tt := tester.New(&config.TestConfig{Filter: "*.test.vcl", Timeout: 1}, []icontext.Option{icontext.WithResolver(store)})
			factory, runErr = tt.Run(filepath.Join(abs, "main.vcl"))
			returned = true
		}()
		res.SimSeconds += time.Since(start).Seconds()
	})
	c.Logf("tester workload returned=%v err=%v", returned, runErr != nil)
	detail := fmt.Sprintf("main.vcl:\n%s\nmain.test.vcl:\n%s", mainVCL, testVCL)
	switch {
	case panicV != nil:
		res.Violate("C08/no-crash", "C08/tester-panic:"+stack+":"+clip(numRe.ReplaceAllString(fmt.Sprint(panicV), "N"), 70), fmt.Sprintf("the test runner crashed: %v\n%s", panicV, detail))
	case strings.HasPrefix(ev, "deadlock"):
		res.Violate("C08/no-deadlock", "C08/tester-deadlock", fmt.Sprintf("the test runner deadlocked: %s\n%s", clip(ev, 300), detail))
	case strings.HasPrefix(ev, "panic"):
		res.Violate("C08/no-crash", "C08/tester-bubble-panic", fmt.Sprintf("%s\n%s", clip(ev, 600), detail))
	case !returned:
		res.Violate("C08/bounded", "C08/tester-did-not-return", detail)
	case runErr != nil && runErr == tester.ErrTimeout:
		res.Violate("C08/bounded", "C08/tester-timeout", fmt.Sprintf("the test runner hit its own 1-minute timeout (simulated): a test never finished\n%s", detail))
	}
	if runErr != nil {
		res.Probe("tester_error_returned")
	} else if factory != nil {
		res.Probe("tester_factory_returned")
		if factory.Statistics != nil && factory.Statistics.Fails > 0 {
			res.Probe("tester_reported_failed_tests")
		}
	}
	if c.Render {
		res.Rendering = map[string]any{"workload": "tester", "main.vcl": mainVCL, "main.test.vcl": testVCL, "error": fmt.Sprint(runErr), "bubble_event": ev}
	}
	res.Sig = fmt.Sprintf("tester|%x|%v", hash32s(testVCL), runErr != nil)
	res.Nontrivial = true
	return "tester", nil
}

func hash32s(s string) uint32 {
	var h uint32 = 2166136261
	for i := 0; i < len(s); i++ {
		h ^= uint32(s[i])
		h *= 16777619
	}
	return h
}
