package world

import (
	"fmt"
	"os"
	"path/filepath"
	"strings"
	"sync"

	"falcosim/sim/worker"
)

// ---- W4: every built-in function × boundary arguments of its declared types --
//
// Data-driven from /repo/__generator__/builtin.yml (read at run time from the
// working tree). This is input breadth, not simulation; it rides along C08
// because the world is already there, and is labelled as such in evidence.

type builtinSig struct {
	Name string
	On   []string
	Args [][]string // alternative signatures
	Ret  string
}

var (
	builtinOnce sync.Once
	builtins    []builtinSig
)

func repoRoot() string {
	if r := os.Getenv("FALCOSIM_REPO"); r != "" {
		return r
	}
	return "/repo"
}

func parseList(s string) []string {
	s = strings.TrimSpace(s)
	s = strings.TrimPrefix(s, "[")
	s = strings.TrimSuffix(s, "]")
	var out []string
	for _, p := range strings.Split(s, ",") {
		p = strings.TrimSpace(p)
		if p != "" {
			out = append(out, p)
		}
	}
	return out
}

func loadBuiltins() []builtinSig {
	builtinOnce.Do(func() {
		b, err := os.ReadFile(filepath.Join(repoRoot(), "__generator__", "builtin.yml"))
		if err != nil {
			return
		}
		var cur *builtinSig
		inArgs := false
		for _, line := range strings.Split(string(b), "\n") {
			switch {
			case len(line) > 0 && line[0] != ' ' && line[0] != '#' && strings.HasSuffix(strings.TrimSpace(line), ":"):
				if cur != nil {
					builtins = append(builtins, *cur)
				}
				cur = &builtinSig{Name: strings.TrimSuffix(strings.TrimSpace(line), ":")}
				inArgs = false
			case cur == nil:
			case strings.HasPrefix(line, "  on:"):
				cur.On = parseList(strings.TrimPrefix(line, "  on:"))
				inArgs = false
			case strings.HasPrefix(line, "  arguments:"):
				inArgs = true
			case strings.HasPrefix(line, "  return:"):
				cur.Ret = strings.TrimSpace(strings.TrimPrefix(line, "  return:"))
				inArgs = false
			case inArgs && strings.HasPrefix(strings.TrimSpace(line), "- ["):
				cur.Args = append(cur.Args, parseList(strings.TrimPrefix(strings.TrimSpace(line), "- ")))
			case strings.HasPrefix(line, "  ") && !strings.HasPrefix(line, "    "):
				inArgs = false
			}
		}
		if cur != nil {
			builtins = append(builtins, *cur)
		}
	})
	return builtins
}

var idPool = []string{"tbl_s", "tbl_i", "acl_a", "rc_a", "pb_a", "F_origin", "sha256", "sha1", "md5", "aes128", "aes256", "cbc", "gcm", "ctr", "nopad", "pkcs7", "base64", "hex", "url", "url_nopad", "default", "crc32", "standard", "nosuch"}
var strPool = []string{`"000102030405060708090a0b0c0d0e0f"`, `"000102030405060708090a0b0c0d0e0f101112131415161718191a1b1c1d1e1f"`, `"aabbcc"`, `"00"`, `"AAECAwQFBgcICQoLDA0ODw=="`, `""`, `"a"`, `"0"`, `"-1"`, `"abc"`, `"%"`, `"("`, `"[a-"`, `"(?<x>"`, `"\\"`, `"a,b;c=d"`, `"k=v&k2=v2"`, `"2001:db8::1"`, `"192.0.2.1/33"`, `"Thu, 01 Jan 1970 00:00:00 GMT"`, `"9223372036854775808"`, `"1e999"`, `"0x"`, `"AAAA===="`, `"zz"`, `"ÿþ"`, `"ａ"`, `"%00"`, `"%E3%81"`, `req.http.Not-Set`, `req.http.X-Long`, `req.url`, `"Mozilla/5.0 (X11)"`, `"en-US,en;q=0.5,*;q=x"`, `"{\"a\":[1,{\"b\":null}]}"`, `"$1\\9\\0"`,
	// raw percent signs at every distance from the end (long strings are not escape-decoded by the parser)
	`{"%2"}`, `{"a%2"}`, `{"next=%2"}`, `{"sale 50%!"}`, `{"a%"}`, `{"%%"}`, `{"%zz"}`, `{"x%41%4"}`, `{"%E3%81%"}`, `{"%u12"}`, `{"%u{1F600"}`, `{"+%2B+"}`}
var timePool = []string{"now", "time.add(now, 9999999h)", "time.sub(now, 9999999h)", "std.integer2time(0)", "std.integer2time(-1)", "std.integer2time(253402300800)", "std.time(\"garbage\", now)"}
var ipPool = []string{"client.ip", "server.ip", "std.ip(\"::\", \"127.0.0.1\")", "std.ip(\"255.255.255.255\", \"::1\")", "std.str2ip(\"bogus\", \"192.0.2.1\")"}

// idHints: for the functions whose ID parameters name a declared object or a
// fixed keyword, the identifiers that make the call reach its real work, by
// position among the ID parameters. Three times out of four the hint is used.
var idHints = map[string][]string{
	"ratelimit.check_rate":            {"rc_a", "pb_a"},
	"ratelimit.check_rates":           {"rc_a", "rc_b", "pb_a"},
	"ratelimit.penaltybox_add":        {"pb_a"},
	"ratelimit.penaltybox_has":        {"pb_a"},
	"ratelimit.ratecounter_increment": {"rc_a"},
	"crypto.encrypt_base64":           {"aes128", "cbc", "pkcs7"},
	"crypto.encrypt_hex":              {"aes128", "cbc", "pkcs7"},
	"crypto.decrypt_base64":           {"aes128", "cbc", "pkcs7"},
	"crypto.decrypt_hex":              {"aes128", "cbc", "pkcs7"},
	"digest.rsa_verify":               {"sha256", "standard"},
	"header.get":                      {"req"},
	"header.set":                      {"req"},
	"header.unset":                    {"req"},
	"header.filter":                   {"req"},
	"header.filter_except":            {"req"},
}

// intHints: integer parameters with a small set of accepted values.
var intHints = map[string][]string{
	"ratelimit.check_rate":  {"1", "10", "60", "100"},
	"ratelimit.check_rates": {"1", "10", "60", "100"},
}

func argForCall(c *worker.Ctx, fname, typ string, idIndex *int) string {
	if typ == "STRING" && strings.HasPrefix(fname, "crypto.") && c.T.Bool(3, 4) {
		// key and IV of the right size, so that the call reaches the cipher; the
		// text in lengths a block cipher does not like
		k := *idIndex
		*idIndex++
		switch k - 3 { // the three ID parameters come first
		case 0, 1:
			return `"000102030405060708090a0b0c0d0e0f"`
		default:
			return []string{`"aabbcc"`, `"00"`, `""`, `"000102030405060708090a0b0c0d0e0f"`, `"000102030405060708090a0b0c0d0e0f00"`, `"zz"`, `"0"`}[c.T.Draw(7)]
		}
	}
	switch typ {
	case "ID":
		k := *idIndex
		*idIndex++
		if h := idHints[fname]; k < len(h) && c.T.Bool(3, 4) {
			return h[k]
		}
	case "INTEGER":
		if h := intHints[fname]; h != nil && c.T.Bool(3, 4) {
			return h[c.T.Draw(len(h))]
		}
	case "STRING":
		if strings.HasPrefix(fname, "ratelimit.") && c.T.Bool(1, 2) {
			return `"client-a"`
		}
	}
	return argFor(c, typ)
}

func argFor(c *worker.Ctx, typ string) string {
	switch typ {
	case "STRING":
		return strPool[c.T.Draw(len(strPool))]
	case "INTEGER":
		return boundaryInts[c.T.Draw(len(boundaryInts))]
	case "FLOAT":
		return boundaryFloats[c.T.Draw(len(boundaryFloats))]
	case "BOOL":
		return []string{"true", "false"}[c.T.Draw(2)]
	case "RTIME":
		return boundaryRTimes[c.T.Draw(len(boundaryRTimes))]
	case "TIME":
		return timePool[c.T.Draw(len(timePool))]
	case "IP":
		return ipPool[c.T.Draw(len(ipPool))]
	case "ID":
		return idPool[c.T.Draw(len(idPool))]
	case "TABLE":
		return []string{"tbl_s", "tbl_i", "tbl_empty", "nosuch"}[c.T.Draw(4)]
	case "ACL":
		return []string{"acl_a", "acl_empty", "nosuch"}[c.T.Draw(3)]
	case "BACKEND":
		return []string{"F_origin", "nosuch", "req.backend"}[c.T.Draw(3)]
	case "STRING_LIST":
		return strPool[c.T.Draw(len(strPool))] + ", " + strPool[c.T.Draw(len(strPool))]
	}
	return `"x"`
}

var scopeSub = map[string]string{"RECV": "vcl_recv", "HASH": "vcl_hash", "HIT": "vcl_hit", "MISS": "vcl_miss", "PASS": "vcl_pass", "FETCH": "vcl_fetch", "ERROR": "vcl_error", "DELIVER": "vcl_deliver", "LOG": "vcl_log"}

var retLocal = map[string]string{"STRING": "var.rs", "INTEGER": "var.ri", "FLOAT": "var.rf", "BOOL": "var.rb", "RTIME": "var.rr", "TIME": "var.rt", "IP": "var.rip"}

// builtinProgram renders a program that calls 1–4 built-ins with boundary
// arguments in a scope where each is declared available.
func builtinProgram(c *worker.Ctx) (string, string) {
	fns := loadBuiltins()
	if len(fns) == 0 {
		return "", ""
	}
	var b strings.Builder
	b.WriteString("backend F_origin { .host = \"origin.test\"; .port = \"80\"; .first_byte_timeout = 5s; }\n")
	b.WriteString("table tbl_s { \"k\": \"v\", \"\": \"e\" }\ntable tbl_i INTEGER { \"k\": 1 }\ntable tbl_empty {}\nacl acl_a { \"10.0.0.0\"/8; !\"10.1.0.0\"/16; }\nacl acl_empty {}\nratecounter rc_a {}\nratecounter rc_b {}\npenaltybox pb_a {}\n")
	bodies := map[string]*strings.Builder{}
	var names []string
	n := 1 + c.T.Draw(4)
	for i := 0; i < n; i++ {
		f := fns[c.T.Draw(len(fns))]
		if len(f.On) == 0 {
			continue
		}
		scope := f.On[c.T.Draw(len(f.On))]
		sub, ok := scopeSub[scope]
		if !ok {
			continue
		}
		var sig []string
		if len(f.Args) > 0 {
			sig = f.Args[c.T.Draw(len(f.Args))]
		}
		args := make([]string, len(sig))
		idIndex := 0
		for k, t := range sig {
			args[k] = argForCall(c, f.Name, t, &idIndex)
		}
		// occasionally drop or add an argument (arity errors must be reported, not crash)
		if len(args) > 0 && c.T.Bool(1, 10) {
			args = args[:len(args)-1]
		} else if c.T.Bool(1, 20) {
			args = append(args, `"extra"`)
		}
		call := fmt.Sprintf("%s(%s)", f.Name, strings.Join(args, ", "))
		bd := bodies[sub]
		if bd == nil {
			bd = &strings.Builder{}
			bodies[sub] = bd
		}
		if lv, ok := retLocal[f.Ret]; ok && c.T.Bool(3, 4) {
			fmt.Fprintf(bd, "  set %s = %s;\n", lv, call)
		} else if f.Ret == "BOOL" || c.T.Bool(1, 2) {
			fmt.Fprintf(bd, "  if (%s) { set req.http.X-R = \"t\"; }\n", call)
		} else {
			fmt.Fprintf(bd, "  %s;\n", call)
		}
		names = append(names, f.Name)
	}
	for _, s := range scopes {
		sub := "vcl_" + s
		fmt.Fprintf(&b, "sub %s {\n", sub)
		if bd := bodies[sub]; bd != nil {
			b.WriteString("  declare local var.rs STRING;\n  declare local var.ri INTEGER;\n  declare local var.rf FLOAT;\n  declare local var.rb BOOL;\n  declare local var.rr RTIME;\n  declare local var.rt TIME;\n  declare local var.rip IP;\n")
			b.WriteString(bd.String())
		}
		if s == "recv" {
			b.WriteString("  return(lookup);\n")
		}
		b.WriteString("}\n")
	}
	return b.String(), strings.Join(names, ",")
}
