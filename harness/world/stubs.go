package world

import "falcosim/sim/worker"

func runC20(c *worker.Ctx) {}
