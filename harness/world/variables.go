package world

import (
	"fmt"
	"os"
	"path/filepath"
	"strings"
	"sync"

	"falcosim/sim/worker"
)

// ---- W5: every predefined variable × every scope it is declared for × the
// request paths that reach that scope with different state behind it ---------
//
// Data-driven from /repo/__generator__/predefined.yml (read at run time from
// the working tree). A variable's accessor meets different interpreter state
// depending on the path that reached the scope: vcl_deliver and vcl_log after
// a synthetic error have no backend request or response, after a hit no
// backend request, after a restart a second request object, after a failed
// fetch no backend response. Like W4 this is input breadth riding on the
// world's request paths and origin faults, and is labelled so in evidence.

type predefVar struct {
	Name  string
	On    []string
	Get   string
	Set   string
	Unset bool
}

var (
	predefOnce sync.Once
	predefs    []predefVar
)

func loadPredefined() []predefVar {
	predefOnce.Do(func() {
		b, err := os.ReadFile(filepath.Join(repoRoot(), "__generator__", "predefined.yml"))
		if err != nil {
			return
		}
		var cur *predefVar
		for _, line := range strings.Split(string(b), "\n") {
			switch {
			case len(line) > 0 && line[0] != ' ' && line[0] != '#' && strings.HasSuffix(strings.TrimSpace(line), ":"):
				if cur != nil {
					predefs = append(predefs, *cur)
				}
				cur = &predefVar{Name: strings.TrimSuffix(strings.TrimSpace(line), ":")}
			case cur == nil:
			case strings.HasPrefix(line, "  on:"):
				cur.On = parseList(strings.TrimPrefix(line, "  on:"))
			case strings.HasPrefix(line, "  get:"):
				cur.Get = strings.TrimSpace(strings.TrimPrefix(line, "  get:"))
			case strings.HasPrefix(line, "  set:"):
				cur.Set = strings.TrimSpace(strings.TrimPrefix(line, "  set:"))
			case strings.HasPrefix(line, "  unset:"):
				cur.Unset = strings.Contains(line, "true")
			}
		}
		if cur != nil {
			predefs = append(predefs, *cur)
		}
	})
	return predefs
}

func concreteName(c *worker.Ctx, name string) string {
	if !strings.Contains(name, "%any%") {
		return name
	}
	var pool []string
	switch {
	case strings.HasPrefix(name, "backend."):
		pool = []string{"F_origin", "nosuch"}
	case strings.HasPrefix(name, "director."):
		pool = []string{"d_main", "nosuch"}
	default:
		pool = []string{"X-A", "Cookie:k", "Not-Set", "Set-Cookie", "X-A:sub"}
	}
	return strings.Replace(name, "%any%", pool[c.T.Draw(len(pool))], 1)
}

// variableProgram renders a program that reads, writes or unsets 1–5
// predefined variables in scopes where each is declared available, and routes
// the request along one of the paths that reach those scopes.
func variableProgram(c *worker.Ctx) (string, string) {
	vars := loadPredefined()
	if len(vars) == 0 {
		return "", ""
	}
	var b strings.Builder
	b.WriteString("backend F_origin { .host = \"origin.test\"; .port = \"80\"; .first_byte_timeout = 5s; }\n")
	b.WriteString("director d_main random { { .backend = F_origin; .weight = 1; } }\n")
	b.WriteString("table tbl_s { \"k\": \"v\" }\nacl acl_a { \"10.0.0.0\"/8; }\nratecounter rc_a {}\npenaltybox pb_a {}\n")
	bodies := map[string]*strings.Builder{}
	var names []string
	n := 1 + c.T.Draw(5)
	for i := 0; i < n; i++ {
		v := vars[c.T.Draw(len(vars))]
		if len(v.On) == 0 {
			continue
		}
		scope := v.On[c.T.Draw(len(v.On))]
		sub, ok := scopeSub[scope]
		if !ok {
			continue
		}
		bd := bodies[sub]
		if bd == nil {
			bd = &strings.Builder{}
			bodies[sub] = bd
		}
		name := concreteName(c, v.Name)
		how := c.T.Draw(6)
		switch {
		case how <= 1 && v.Set != "":
			val := argFor(c, v.Set)
			if v.Set == "REQBACKEND" || v.Set == "BACKEND" {
				val = []string{"F_origin", "d_main"}[c.T.Draw(2)]
			}
			fmt.Fprintf(bd, "  set %s = %s;\n", name, val)
			names = append(names, "set:"+v.Name+"@"+scope)
		case how == 2 && v.Unset:
			fmt.Fprintf(bd, "  unset %s;\n", name)
			names = append(names, "unset:"+v.Name+"@"+scope)
		case v.Get == "":
			continue
		case how == 3:
			fmt.Fprintf(bd, "  log %s;\n", name)
			names = append(names, "log:"+v.Name+"@"+scope)
		case how == 4 && (v.Get == "BOOL"):
			fmt.Fprintf(bd, "  if (%s) { log \"t\"; }\n", name)
			names = append(names, "if:"+v.Name+"@"+scope)
		default:
			target := "req.http.X-V"
			switch sub {
			case "vcl_fetch":
				target = "beresp.http.X-V"
			case "vcl_deliver", "vcl_log":
				target = "resp.http.X-V"
			case "vcl_error":
				target = "obj.http.X-V"
			}
			if sub == "vcl_log" {
				fmt.Fprintf(bd, "  log \"v=\" %s;\n", name)
			} else {
				fmt.Fprintf(bd, "  set %s = %s;\n", target, name)
			}
			names = append(names, "get:"+v.Name+"@"+scope)
		}
	}
	route := []string{"lookup", "lookup", "pass", "error", "restart-then-lookup", "fetch-error", "fetch-restart", "deliver-restart"}[c.T.Draw(8)]
	for _, s := range scopes {
		sub := "vcl_" + s
		fmt.Fprintf(&b, "sub %s {\n", sub)
		if bd := bodies[sub]; bd != nil {
			b.WriteString(bd.String())
		}
		switch {
		case s == "recv" && route == "pass":
			b.WriteString("  return(pass);\n")
		case s == "recv" && route == "error":
			b.WriteString("  error 601 \"synthetic\";\n")
		case s == "recv" && route == "restart-then-lookup":
			b.WriteString("  if (req.restarts == 0) { restart; }\n  return(lookup);\n")
		case s == "recv":
			b.WriteString("  return(lookup);\n")
		case s == "fetch" && route == "fetch-error":
			b.WriteString("  error 602;\n")
		case s == "fetch" && route == "fetch-restart":
			b.WriteString("  if (req.restarts == 0) { restart; }\n  set beresp.ttl = 60s;\n")
		case s == "fetch":
			b.WriteString("  set beresp.ttl = 60s;\n")
		case s == "deliver" && route == "deliver-restart":
			b.WriteString("  if (req.restarts == 0) { restart; }\n")
		}
		b.WriteString("}\n")
	}
	return b.String(), route + ":" + strings.Join(names, ",")
}
