package world

import (
	"os"
	"strconv"

	"falcosim/sim/worker"
)

func scale(n int) int {
	if s := os.Getenv("FALCOSIM_SCALE"); s != "" {
		if f, err := strconv.ParseFloat(s, 64); err == nil && f > 0 {
			n = int(float64(n) * f)
			if n < 1 {
				n = 1
			}
		}
	}
	return n
}

func Engine() *worker.Engine {
	return &worker.Engine{
		Name:       "world",
		Properties: []string{"C06", "C08", "C20"},
		NumEnum: func(p, tier string) int {
			switch p {
			case "C06":
				return c06NumEnum(tier)
			}
			return 0
		},
		EnumPrefix: func(p, tier string, i int) []uint64 {
			switch p {
			case "C06":
				return c06EnumPrefix(tier, i)
			}
			return nil
		},
		NumSampled: func(p, tier string) int {
			switch p + "/" + tier {
			case "C06/quick":
				return scale(300000)
			case "C06/thorough":
				return scale(3000000)
			case "C08/quick":
				return scale(100000)
			case "C08/thorough":
				return scale(3000000)
			case "C20/quick":
				return scale(150000)
			case "C20/thorough":
				return scale(5000000)
			}
			return 1000
		},
		Run: func(c *worker.Ctx) {
			switch c.Property {
			case "C06":
				runC06(c)
			case "C08":
				runC08(c)
			case "C20":
				runC20(c)
			}
		},
	}
}
