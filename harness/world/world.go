package world

import (
	"encoding/json"
	"errors"
	"fmt"
	"net/http"
	"net/url"
	"runtime"
	"strings"
	"testing"
	"testing/synctest"
	"time"

	"falcosim/sim/simfs"
	"falcosim/sim/simhook"
	"falcosim/sim/simnet"
	"falcosim/sim/worker"

	"github.com/ysugimoto/falco/v2/ast"
	"github.com/ysugimoto/falco/v2/interpreter"
	icontext "github.com/ysugimoto/falco/v2/interpreter/context"
)

// errStepBudget is raised by the yield hook when one request enters more
// subroutines / restarts than any terminating run can.
var errStepBudget = errors.New("world: step budget exceeded (request processing does not terminate)")

type reqSpec struct {
	Method  string
	URL     string
	Host    string
	Header  http.Header
	Advance time.Duration // clock advance before the request
}

type flowRec struct {
	Subroutine string `json:"subroutine"`
	Name       string `json:"name"`
}

type logRec struct {
	Scope   string `json:"scope"`
	Message string `json:"message"`
}

type processJSON struct {
	Flows          []flowRec `json:"flows"`
	Logs           []logRec  `json:"logs"`
	Restarts       int       `json:"restarts"`
	Backend        string    `json:"backend"`
	Cached         bool      `json:"cached"`
	Error          string    `json:"error"`
	ClientResponse struct {
		StatusCode int               `json:"status_code"`
		Headers    map[string]string `json:"headers"`
	} `json:"client_response"`
}

type respRec struct {
	Spec      reqSpec
	StartedAt time.Time
	Returned  bool
	PanicV    any
	Stack     string
	Trace     string
	Spin      bool
	Budget    string // which budget sentinel fired
	Code      int
	Wrote     bool
	Raw       []byte
	Proc      *processJSON // nil when the body is not the process JSON
	Steps     int
	Trips     []simnet.Trip
}

// lifecycle filters flows down to the lifecycle subroutines.
func (p *processJSON) lifecycle() []string {
	var out []string
	for _, f := range p.Flows {
		if strings.HasPrefix(f.Subroutine, "vcl_") {
			out = append(out, strings.TrimPrefix(f.Subroutine, "vcl_"))
		}
	}
	return out
}

// falcoTrace lists the falco frames of the panicking stack, innermost first
// (diagnostics only: it is not part of any violation key).
func falcoTrace(skip, max int) string {
	pcs := make([]uintptr, 96)
	n := runtime.Callers(skip, pcs)
	frames := runtime.CallersFrames(pcs[:n])
	var out []string
	for len(out) < max {
		f, more := frames.Next()
		if i := strings.Index(f.Function, "falco/v2/"); i >= 0 && strings.Contains(f.Function, "ysugimoto/") {
			file := f.File
			if k := strings.LastIndex(file, "/"); k >= 0 {
				file = file[k+1:]
			}
			out = append(out, fmt.Sprintf("%s (%s:%d)", f.Function[i+len("falco/v2/"):], file, f.Line))
		}
		if !more {
			break
		}
	}
	return strings.Join(out, " <- ")
}

func innermostFalcoFrame(skip int) string {
	pcs := make([]uintptr, 96)
	n := runtime.Callers(skip, pcs)
	frames := runtime.CallersFrames(pcs[:n])
	for {
		f, more := frames.Next()
		if strings.Contains(f.Function, "ysugimoto/falco/v2/") {
			return f.Function[strings.Index(f.Function, "falco/v2/")+len("falco/v2/"):]
		}
		if !more {
			break
		}
	}
	return "?"
}

type world struct {
	c      *worker.Ctx
	interp *interpreter.Interpreter
	origin *simnet.Origin
	store  *simfs.Store
	steps  int
	budget int
	start  time.Time
}

// bubble runs f inside a synctest bubble and classifies what comes out of it.
// Panics of code under test must be recovered inside (f does that per call);
// what arrives here is a bubble-level event.
func bubble(tb *testing.T, f func()) (event string) {
	defer func() {
		if v := recover(); v != nil {
			s := fmt.Sprint(v)
			switch {
			case strings.Contains(s, "blocked goroutines") || strings.Contains(s, "main bubble goroutine has exited"):
				event = "leak: " + s
			case strings.Contains(s, "deadlock"):
				event = "deadlock: " + s
			default:
				event = "panic: " + s
			}
		}
	}()
	synctest.Test(tb, func(t *testing.T) { f() })
	return ""
}

func newWorld(c *worker.Ctx, vcl string, modules map[string]string, behave func(req *http.Request, n int) simnet.Behaviour) *world {
	w := &world{c: c, budget: 3000}
	w.store = simfs.New(vcl, modules)
	w.origin = simnet.NewOrigin(behave)
	w.interp = interpreter.New(icontext.WithResolver(w.store))
	w.interp.Debugger = silentDebugger{}
	w.start = time.Now()
	return w
}

type silentDebugger struct{}

func (silentDebugger) Run(ast.Node) interpreter.DebugState { return interpreter.DebugPass }
func (silentDebugger) Message(string)                      {}
func (silentDebugger) Log(*ast.LogStatement, string)       {}

// serve drives one request through the real ServeHTTP and records everything.
func (w *world) serve(spec reqSpec) *respRec {
	if spec.Advance > 0 {
		time.Sleep(spec.Advance)
	}
	rec := &respRec{Spec: spec, StartedAt: time.Now()}
	u, err := url.Parse(spec.URL)
	if err != nil || u == nil {
		u = &url.URL{Path: "/"}
	}
	host := spec.Host
	if host == "" {
		host = "example.test"
	}
	req := &http.Request{Method: spec.Method, URL: u, Host: host, Header: spec.Header.Clone(), Proto: "HTTP/1.1", ProtoMajor: 1, ProtoMinor: 1,
		RemoteAddr: "192.0.2.10:4000", RequestURI: u.RequestURI(), Body: http.NoBody}
	if req.Header == nil {
		req.Header = http.Header{}
	}
	rw := simnet.NewRecorder()
	tripsBefore := w.origin.Count()
	w.steps = 0
	simhook.InstallYield(func(name string) {
		w.steps++
		if w.steps > w.budget {
			panic(errStepBudget)
		}
	})
	oldT := http.DefaultTransport
	http.DefaultTransport = w.origin
	func() {
		defer func() {
			if v := recover(); v != nil {
				switch v {
				case errStepBudget:
					rec.Spin, rec.Budget = true, "steps"
				case simnet.TripBudget:
					rec.Spin, rec.Budget = true, "origin-round-trips"
				case simfs.ResolveBudget:
					rec.Spin, rec.Budget = true, "include-resolves"
				default:
					rec.PanicV = v
				}
				rec.Stack = innermostFalcoFrame(3)
				rec.Trace = falcoTrace(3, 8)
			}
		}()
		w.interp.ServeHTTP(rw, req)
		rec.Returned = true
	}()
	http.DefaultTransport = oldT
	simhook.UninstallYield()
	rec.Steps = w.steps
	rec.Code, rec.Wrote, rec.Raw = rw.Code(), rw.Wrote(), append([]byte{}, rw.Body()...)
	var pj processJSON
	if json.Unmarshal(rec.Raw, &pj) == nil && (pj.Flows != nil || pj.Error != "") {
		rec.Proc = &pj
	}
	rec.Trips = append(rec.Trips, w.origin.Trips[tripsBefore:]...)
	return rec
}
