package world

import (
	"fmt"
	"net/http"
	"sort"
	"strings"
	"time"

	"falcosim/sim/simnet"
	"falcosim/sim/worker"
)

// ---------------------------------------------------------------------------
// C06 — request processing follows the Fastly request state machine.
//
// One real interpreter per case, driven through ServeHTTP inside a synctest
// bubble; origins are simnet round-trippers; the clock is the bubble's.
// Program family L: all nine lifecycle subroutines, each with one behaviour.
// ---------------------------------------------------------------------------

var scopes = []string{"recv", "hash", "hit", "miss", "pass", "fetch", "error", "deliver", "log"}

// Unconditional behaviours per scope: "" (fall through), "ret:<action>",
// "error", "restart". The first group per scope is what Fastly documents for
// that subroutine; a few undocumented ones follow (the model treats those as
// unconstrained beyond the generic invariants).
var legalActions = map[string][]string{
	"recv":    {"", "ret:lookup", "ret:pass", "error", "restart", "ret:restart", "ret:error"},
	"hash":    {"", "ret:hash"},
	"hit":     {"", "ret:deliver", "ret:pass", "error", "restart", "ret:restart", "ret:error"},
	"miss":    {"", "ret:fetch", "ret:pass", "error", "ret:deliver_stale", "ret:error"},
	"pass":    {"", "ret:pass", "error", "ret:error"},
	"fetch":   {"", "ret:deliver", "ret:pass", "ret:hit_for_pass", "ret:deliver_stale", "error", "restart", "ret:restart", "ret:error"},
	"error":   {"", "ret:deliver", "restart", "ret:restart"},
	"deliver": {"", "ret:deliver", "restart", "ret:restart"},
	"log":     {"", "ret:deliver"},
}

var oddActions = map[string][]string{
	"recv":    {"ret:deliver", "ret:fetch", "ret:upgrade", "ret:hash"},
	"hash":    {"ret:lookup", "restart", "error"},
	"hit":     {"ret:fetch", "ret:lookup"},
	"miss":    {"restart", "ret:deliver", "ret:lookup"},
	"pass":    {"restart", "ret:fetch", "ret:deliver"},
	"fetch":   {"ret:lookup", "ret:fetch"},
	"error":   {"error", "ret:deliver_stale", "ret:pass"},
	"deliver": {"error", "ret:pass", "ret:fetch"},
	"log":     {"restart", "error", "ret:restart"},
}

// behaviour of one subroutine: what it does when req.restarts < K, and after.
type subBehaviour struct {
	First string // action while req.restarts < K
	K     int    // 0: unconditional (Then is used always)
	Then  string
}

// at mirrors the rendering: `if (req.restarts < K) { First }` followed by
// Then; an empty First falls through to Then.
func (b subBehaviour) at(restarts int) string {
	if restarts < b.K && b.First != "" {
		return b.First
	}
	return b.Then
}

type programL struct {
	B         map[string]subBehaviour
	TTL       time.Duration // explicit beresp.ttl set in vcl_fetch
	Cacheable bool
	RateDelta int            // >0: recv increments a rate counter by this much
	Wrap      map[string]int // per subroutine: the syntactic form its actions are written in (wrapStmt)
	Split     map[string]int // per scope: 0 = one declaration, else where the body is cut into two declarations
	ReadObj   bool           // vcl_hit reads obj.ttl, obj.age, obj.hits and obj.grace (and assigns nothing)
	Fresh     string         // "" (vcl_fetch sets beresp.ttl) or who decides freshness at the origin: expires-past | max-age | surrogate | s-maxage
	RateForm  int            // how: 0 ratecounter_increment, 1 check_rate, 2 check_rates as its second counter (the first one trips), 3 check_rates as its first counter
	Penalty   bool           // recv adds the client to a penalty box when X-Punish is set
	HashVary  bool           // vcl_hash adds the X-V request header to the hash
}

func stmtFor(action string) string {
	switch {
	case action == "":
		return ""
	case action == "error":
		return "error 601 \"boom\";"
	case action == "restart":
		return "restart;"
	case strings.HasPrefix(action, "ret:"):
		return "return(" + strings.TrimPrefix(action, "ret:") + ");"
	}
	return ""
}

// wrapStmt writes an action in one of several equivalent ways: behind
// conditions that are always true for the requests of this workload (the
// marker header is always set and starts with "m"), after branches that are
// never taken and would end the request differently if they were.
func wrapStmt(form int, st string) string {
	switch form {
	case 1:
		return "if (req.http.X-Never) {\n    error 777 \"never\";\n  } else if (req.http.X-Marker) {\n    " + st + "\n  }"
	case 2:
		return "if (!req.http.X-Marker) {\n    error 777 \"never\";\n  } else {\n    " + st + "\n  }"
	case 3:
		return "if (req.http.X-Never == \"1\") {\n    error 777 \"never\";\n  } else if (req.http.X-Marker ~ \"^m\") {\n    " + st + "\n  } else {\n    error 778 \"never\";\n  }"
	case 4:
		return "if (req.http.X-Never) {\n    error 777 \"never\";\n  } else if (req.http.X-Never2) {\n    error 778 \"never\";\n  } else if (req.restarts >= 0) {\n    " + st + "\n  }"
	}
	return st
}

func (p *programL) render() string {
	var b strings.Builder
	b.WriteString("backend F_origin {\n  .host = \"origin.test\";\n  .port = \"80\";\n  .first_byte_timeout = 5s;\n  .connect_timeout = 1s;\n  .between_bytes_timeout = 2s;\n}\n")
	b.WriteString("ratecounter rc_a {}\nratecounter rc_b {}\npenaltybox pb_a {}\npenaltybox pb_b {}\n")
	var later strings.Builder // the second pieces of split subroutines, after all first pieces
	for _, s := range scopes {
		var chunks []string
		emit := func(x string) { chunks = append(chunks, x) }
		emitf := func(format string, a ...any) { chunks = append(chunks, fmt.Sprintf(format, a...)) }
		emitf("  log \"%s:\" req.restarts;\n", s)
		switch s {
		case "recv":
			emit("  set req.backend = F_origin;\n")
			if p.RateDelta > 0 {
				emit("  declare local var.n INTEGER;\n")
				// every form increments rc_a by RateDelta for this client, once per request
				emit("  declare local var.lim BOOL;\n  declare local var.d INTEGER;\n  set var.d = std.atoi(req.http.X-Delta);\n")
				switch p.RateForm {
				case 1:
					emitf("  if (req.restarts == 0) {\n    set var.lim = ratelimit.check_rate(req.http.X-Client, rc_a, var.d, 10, 10, pb_b, 2m);\n  }\n")
				case 2:
					emitf("  if (req.restarts == 0) {\n    set var.lim = ratelimit.check_rates(req.http.X-Client, rc_b, 100000, 1, 10, rc_a, var.d, 10, 10, pb_b, 2m);\n  }\n")
				case 3:
					emitf("  if (req.restarts == 0) {\n    set var.lim = ratelimit.check_rates(req.http.X-Client, rc_a, var.d, 10, 10, rc_b, 1, 60, 70000000, pb_b, 2m);\n  }\n")
				default:
					emitf("  if (req.restarts == 0) {\n    set var.n = ratelimit.ratecounter_increment(rc_a, req.http.X-Client, var.d);\n  }\n")
				}
				emit("  set req.http.X-Bucket = ratecounter.rc_a.bucket.60s;\n")
			}
			if p.Penalty {
				// membership is only evaluated when the request asks for it, so that
				// histories exist in which an entry expires unobserved
				emit("  if (req.http.X-Check) {\n    if (ratelimit.penaltybox_has(pb_a, req.http.X-Client)) {\n      set req.http.X-Boxed = \"1\";\n    } else {\n      set req.http.X-Boxed = \"0\";\n    }\n  }\n")
				emit("  if (req.http.X-Punish && req.restarts == 0) {\n    ratelimit.penaltybox_add(pb_a, req.http.X-Client, 2m);\n  }\n")
			}
		case "hit":
			if p.ReadObj {
				// reads only: looking at the object must not change it
				emit("  set req.http.X-Obj-TTL = obj.ttl;\n  set req.http.X-Obj-Age = obj.age;\n  set req.http.X-Obj-Hits = obj.hits;\n  set req.http.X-Obj-Grace = obj.grace;\n")
			}
		case "hash":
			if p.HashVary {
				emit("  set req.hash += req.http.X-V;\n")
			}
		case "fetch":
			if p.Fresh != "" {
				// the origin's headers decide
			} else if p.Cacheable {
				emitf("  set beresp.cacheable = true;\n  set beresp.ttl = %ds;\n", int(p.TTL.Seconds()))
			} else {
				emit("  set beresp.cacheable = false;\n")
			}
		case "deliver":
			emit("  set resp.http.X-Marker = req.http.X-Marker;\n  set resp.http.X-Bucket = req.http.X-Bucket;\n  set resp.http.X-Boxed = req.http.X-Boxed;\n")
		}
		sb := p.B[s]
		if sb.K > 0 {
			if st := stmtFor(sb.First); st != "" {
				emitf("  if (req.restarts < %d) {\n    %s\n  }\n", sb.K, wrapStmt(p.Wrap[s], st))
			}
		}
		if st := stmtFor(sb.Then); st != "" {
			emitf("  %s\n", wrapStmt(p.Wrap[s], st))
		}
		// A lifecycle subroutine may be declared in pieces, which are concatenated
		// in declaration order: the program is the same, and so is every request's
		// path — also the second and third request's.
		k := 0
		if sp := p.Split[s]; sp > 0 && len(chunks) >= 2 {
			k = 1 + (sp-1)%(len(chunks)-1)
		}
		fmt.Fprintf(&b, "sub vcl_%s {\n", s)
		for i, ch := range chunks {
			if k > 0 && i == k {
				fmt.Fprintf(&later, "sub vcl_%s {\n", s)
			}
			if k > 0 && i >= k {
				later.WriteString(ch)
			} else {
				b.WriteString(ch)
			}
		}
		if k > 0 {
			later.WriteString("}\n")
		}
		b.WriteString("}\n")
	}
	b.WriteString(later.String())
	return b.String()
}

func (p *programL) signature() string {
	var parts []string
	for _, s := range scopes {
		sb := p.B[s]
		if sb.K > 0 {
			parts = append(parts, fmt.Sprintf("%s=%s<%d/%s", s, sb.First, sb.K, sb.Then))
		} else if sb.Then != "" {
			parts = append(parts, fmt.Sprintf("%s=%s", s, sb.Then))
		}
	}
	return strings.Join(parts, ",")
}

// ---- the reference model M06 -------------------------------------------------

// What the documentation pins down for a (scope, action) pair.
//
//	next scope, or "END", or "RESTART", or "ERRORREPORT" (a reported runtime
//	error is the only sane outcome), or "?" (unconstrained).
func successor(scope, action string) string {
	a := strings.TrimPrefix(action, "ret:")
	isRet := strings.HasPrefix(action, "ret:")
	if action == "error" || (isRet && a == "error") {
		switch scope {
		case "recv", "hit", "miss", "pass", "fetch":
			return "error"
		}
		return "?" // `error` where Fastly does not allow it: not constrained by the statement
	}
	if action == "restart" || (isRet && a == "restart") {
		switch scope {
		case "recv", "hit", "fetch", "error", "deliver":
			return "RESTART"
		}
		return "?"
	}
	switch scope {
	case "recv":
		switch a {
		case "", "lookup":
			return "hash>lookup"
		case "pass":
			return "hash>pass"
		}
	case "hash":
		switch a {
		case "", "hash":
			return "CONT"
		}
	case "hit":
		switch a {
		case "", "deliver":
			return "deliver"
		case "pass":
			return "pass"
		}
	case "miss":
		switch a {
		case "", "fetch":
			return "fetch"
		case "pass":
			return "pass"
		case "deliver_stale":
			return "?" // only meaningful with a stale object; the statement is silent
		}
	case "pass":
		switch a {
		case "", "pass":
			return "fetch"
		}
	case "fetch":
		switch a {
		case "", "deliver", "pass", "hit_for_pass", "deliver_stale":
			return "deliver"
		}
	case "error":
		switch a {
		case "", "deliver":
			return "deliver"
		}
	case "deliver":
		switch a {
		case "", "deliver":
			return "log"
		}
	case "log":
		switch a {
		case "", "deliver":
			return "END"
		}
	}
	return "?"
}

type cacheEntry struct {
	storedAt time.Time
	expiry   time.Time
	definite bool // stored by the plain path the statement pins down
}

type modelState struct {
	cache     map[string][]cacheEntry // by request hash (URL)
	incs      []rateInc
	penalties []penaltyAdd
}

type rateInc struct {
	at     time.Time
	client string
	delta  int
}
type penaltyAdd struct {
	at     time.Time
	client string
	ttl    time.Duration
}

const eps = time.Millisecond

// lookupVerdict: "hit" (must hit), "miss" (must miss) or "?" (unconstrained).
func (m *modelState) lookupVerdict(hash string, now time.Time) string {
	es := m.cache[hash]
	if len(es) == 0 {
		return "miss"
	}
	anyLive, allDead := false, true
	mustHit := false
	for _, e := range es {
		if now.Before(e.expiry.Add(-eps)) {
			anyLive = true
			allDead = false
			if e.definite {
				mustHit = true
			}
		} else if !now.After(e.expiry.Add(eps)) {
			allDead = false // within epsilon of the boundary: abstain
		}
	}
	_ = anyLive
	switch {
	case mustHit:
		// a later non-definite store under the same hash could have replaced
		// it (e.g. a pass-path fetch): abstain in that case
		last := es[len(es)-1]
		if !last.definite {
			return "?"
		}
		if now.Before(last.expiry.Add(-eps)) {
			return "hit"
		}
		return "?"
	case allDead:
		return "miss"
	}
	return "?"
}

type verdict struct {
	path       []string // expected lifecycle sequence (as far as constrained)
	exact      bool     // path is the complete expected sequence
	wantError  bool     // a reported error is expected at the end of path
	openEnded  bool     // unconstrained from the end of path on
	restarts   int
	why        string
	finalScope string // "hit" | "miss" | "pass" | "" branch taken on the final pass (for X-Cache/cached)
	fetched    bool   // the final pass went through fetch
}

// expect walks the model for one request. observed is the lifecycle sequence
// falco reported; it is consulted only where the statement leaves the choice
// open (cache lookup with an unconstrained verdict).
func expect(p *programL, m *modelState, hash string, now time.Time, observed []string, originOK func(n int) bool) verdict {
	v := verdict{}
	restarts := 0
	scope := "recv"
	fetchN := 0
	fetchedEarlier := false
	pos := 0 // position in observed
	step := func(s string) {
		v.path = append(v.path, s)
		pos++
	}
	for guard := 0; guard < 200; guard++ {
		step(scope)
		act := p.B[scope].at(restarts)
		suc := successor(scope, act)
		switch suc {
		case "?":
			v.openEnded, v.why = true, fmt.Sprintf("%s:%s is not pinned down by the statement", scope, act)
			v.restarts = restarts
			return v
		case "END":
			v.exact, v.restarts = true, restarts
			return v
		case "RESTART":
			if restarts+1 > 3 {
				v.wantError, v.why, v.restarts = true, "fourth restart", restarts
				return v
			}
			restarts++
			scope = "recv"
			v.finalScope, v.fetched = "", false
			continue
		case "hash>lookup", "hash>pass":
			step("hash")
			hact := p.B["hash"].at(restarts)
			if successor("hash", hact) != "CONT" {
				v.openEnded, v.why, v.restarts = true, "hash:"+hact, restarts
				return v
			}
			if suc == "hash>pass" {
				scope = "pass"
				v.finalScope = "pass"
				continue
			}
			lv := m.lookupVerdict(hash, now)
			if fetchedEarlier {
				// an object fetched earlier in this same request (before a
				// restart) may or may not be visible: the statement is silent
				lv = "?"
			}
			switch lv {
			case "hit":
				scope = "hit"
			case "miss":
				scope = "miss"
			default:
				// follow what falco did
				if pos < len(observed) && (observed[pos] == "hit" || observed[pos] == "miss") {
					scope = observed[pos]
				} else {
					v.openEnded, v.why, v.restarts = true, "lookup outcome unconstrained and not observable", restarts
					return v
				}
			}
			v.finalScope = scope
			continue
		case "fetch":
			scope = "fetch"
			if !originOK(fetchN) {
				// an origin failure may be a reported error or a synthetic error path
				step("fetch")
				v.path = v.path[:len(v.path)-1]
				v.openEnded, v.why, v.restarts = true, "origin fault", restarts
				return v
			}
			fetchN++
			v.fetched = true
			fetchedEarlier = true
			continue
		default:
			if suc == "pass" {
				v.finalScope = "pass"
			}
			scope = suc
		}
	}
	v.openEnded, v.why = true, "model guard"
	return v
}

// ---- case generation ----------------------------------------------------------

func drawProgramL(c *worker.Ctx) *programL {
	p := &programL{B: map[string]subBehaviour{}}
	p.Cacheable = !c.T.Bool(1, 5)
	p.TTL = []time.Duration{10 * time.Second, 60 * time.Second, 3600 * time.Second}[c.T.Draw(3)]
	if c.T.Bool(1, 3) {
		p.RateDelta = 1 + c.T.Draw(5)
		p.RateForm = c.T.Draw(4)
	}
	p.Penalty = c.T.Bool(1, 3)
	p.HashVary = c.T.Bool(1, 3)
	if c.T.Bool(1, 5) {
		p.Fresh = []string{"expires-past", "max-age", "surrogate", "s-maxage"}[c.T.Draw(4)]
		p.Cacheable = true
	}
	p.ReadObj = c.T.Bool(1, 3)
	p.Split = map[string]int{}
	if c.T.Bool(1, 3) {
		for _, sc := range scopes {
			if c.T.Bool(1, 2) {
				p.Split[sc] = 1 + c.T.Draw(8)
			}
		}
	}
	for _, s := range scopes {
		pick := func() string {
			la := legalActions[s]
			if c.T.Bool(1, 12) {
				oa := oddActions[s]
				return oa[c.T.Draw(len(oa))]
			}
			// bias to fall-through so that deep paths are reached
			if c.T.Bool(2, 3) {
				return ""
			}
			a := la[c.T.Draw(len(la))]
			if (a == "restart" || a == "ret:restart") && c.T.Bool(1, 2) {
				return "" // unconditional restarts end every run the same way; keep them rarer
			}
			return a
		}
		sb := subBehaviour{Then: pick()}
		if c.T.Bool(1, 4) {
			sb.K = 1 + c.T.Draw(3)
			sb.First = pick()
		}
		p.B[s] = sb
		if c.T.Bool(1, 3) {
			if p.Wrap == nil {
				p.Wrap = map[string]int{}
			}
			p.Wrap[s] = 1 + c.T.Draw(4)
		}
	}
	return p
}

// productSpace enumerates the unconditional action product over documented
// actions (the exhaustive sub-space): index → programL.
func productDims() []int {
	d := make([]int, len(scopes))
	for i, s := range scopes {
		d[i] = len(legalActions[s])
	}
	return d
}

func productSize() int {
	n := 1
	for _, d := range productDims() {
		n *= d
	}
	return n
}

func c06NumEnum(tier string) int {
	if tier == "thorough" {
		return productSize()
	}
	return 0
}

func c06EnumPrefix(tier string, i int) []uint64 {
	out := []uint64{1} // mode 1: enumerated product
	for _, d := range productDims() {
		out = append(out, uint64(i%d))
		i /= d
	}
	return out
}

type originPlan struct {
	kinds []string
}

func runC06(c *worker.Ctx) {
	res := c.Res
	mode := c.T.Draw(2)
	var p *programL
	if mode == 1 {
		p = &programL{B: map[string]subBehaviour{}, Cacheable: true, TTL: 60 * time.Second}
		for _, s := range scopes {
			la := legalActions[s]
			p.B[s] = subBehaviour{Then: la[c.T.Draw(len(la))]}
		}
	} else {
		p = drawProgramL(c)
	}
	// history
	nReq := 1 + c.T.Draw(4)
	if mode == 1 {
		nReq = 2
	}
	urls := []string{"/a", "/b", "/a?x=1"}
	faulty := mode == 0 && c.T.Bool(1, 3)
	var specs []reqSpec
	for i := 0; i < nReq; i++ {
		sp := reqSpec{Method: "GET", URL: urls[c.T.Draw(len(urls))], Header: http.Header{}}
		if mode == 1 {
			sp.URL = "/a"
		}
		sp.Header.Set("X-Marker", fmt.Sprintf("m%d", i))
		sp.Header.Set("X-Client", []string{"c1", "c2"}[c.T.Draw(2)])
		if c.T.Bool(1, 3) {
			sp.Header.Set("X-Punish", "1")
		}
		sp.Header.Set("X-V", []string{"v1", "v2"}[c.T.Draw(2)])
		// this request's increment: the program's delta, or none at all
		if p.RateDelta > 0 && c.T.Bool(1, 4) {
			sp.Header.Set("X-Delta", "0")
		} else {
			sp.Header.Set("X-Delta", fmt.Sprint(p.RateDelta))
		}
		if c.T.Bool(2, 3) {
			sp.Header.Set("X-Check", "1")
		}
		if i > 0 {
			// advance relative to the TTLs in play
			T := p.TTL
			adv := []time.Duration{0, T / 2, T - 10*time.Millisecond, T + 10*time.Millisecond, 10 * T, 30 * time.Second, 121 * time.Second, 365 * 24 * time.Hour, 3 * T / 5, 119 * time.Second, time.Second}
			sp.Advance = adv[c.T.Draw(len(adv))]
			if mode == 1 {
				sp.Advance = time.Second
			}
		}
		specs = append(specs, sp)
	}
	// origin behaviour per round trip
	behave := func(req *http.Request, n int) simnet.Behaviour {
		b := simnet.Behaviour{Kind: "ok", Status: 200, Header: http.Header{"Content-Type": {"text/plain"}, "X-Origin-Saw": {req.Header.Get("X-Marker")}}, Body: []byte("body-of-" + req.URL.Path), BodyErrAfter: -1, Latency: time.Duration(c.T.Draw(200)) * time.Millisecond}
		switch p.Fresh {
		case "expires-past":
			b.Header.Set("Expires", "Thu, 01 Jan 1970 00:00:00 GMT")
		case "max-age":
			b.Header.Set("Cache-Control", fmt.Sprintf("max-age=%d", int(p.TTL.Seconds())))
		case "surrogate":
			b.Header.Set("Surrogate-Control", fmt.Sprintf("max-age=%d", int(p.TTL.Seconds())))
			b.Header.Set("Cache-Control", "max-age=1") // the surrogate header wins
		case "s-maxage":
			b.Header.Set("Cache-Control", fmt.Sprintf("s-maxage=%d", int(p.TTL.Seconds())))
		}
		if faulty {
			switch c.T.Draw(8) {
			case 0:
				b.Kind, b.Err = "connect-error", simnet.ErrConnRefused
			case 1:
				b.Kind, b.Hang = "hang", true
			case 2:
				b.Kind, b.Latency = "slow-past-timeout", 5*time.Second+eps
			case 3:
				b.Kind, b.Latency = "slow-within-timeout", 5*time.Second-eps
			case 4:
				b.Kind, b.Status = "status-503", 503
			case 5:
				b.Kind, b.BodyErrAfter = "body-error", c.T.Draw(5)
			case 6:
				// the peer announces more than it sends and closes cleanly: what
				// net/http reports as an unexpected EOF while the body is read
				a := int64(len(b.Body) + 1 + c.T.Draw(5))
				b.Kind, b.Announce = "short-body", &a
			}
		}
		return b
	}
	vcl := p.render()
	c.Logf("program %s ttl=%v cacheable=%v rate=%d penalty=%v hashvary=%v reqs=%d faulty=%v", p.signature(), p.TTL, p.Cacheable, p.RateDelta, p.Penalty, p.HashVary, nReq, faulty)

	var recs []*respRec
	var w *world
	ev := bubble(c.TB, func() {
		w = newWorld(c, vcl, nil, behave)
		for _, sp := range specs {
			r := w.serve(sp)
			recs = append(recs, r)
			if !r.Returned {
				break
			}
		}
		res.SimSeconds += time.Since(w.start).Seconds()
	})
	if ev != "" && !strings.HasPrefix(ev, "leak") {
		res.Violate("C06/bubble", "C06/"+strings.SplitN(ev, ":", 2)[0], fmt.Sprintf("%s\nprogram:\n%s", ev, vcl))
	}

	// ---- oracle -------------------------------------------------------------
	m := &modelState{cache: map[string][]cacheEntry{}}
	var sigParts []string
	var rendered []any
	for i, r := range recs {
		for _, t := range r.Trips {
			res.Fault("origin:" + t.Kind)
		}
		if r.PanicV != nil {
			res.Violate("C06/no-crash", "C06/panic:"+r.Stack+":"+clip(fmt.Sprint(r.PanicV), 60)+":"+p.crashEdge(r), fmt.Sprintf("request %d (%s) crashed the simulator: %v\nprogram:\n%s", i, r.Spec.URL, r.PanicV, vcl))
			break
		}
		if r.Spin {
			res.Violate("C06/bounded", "C06/unbounded:"+r.Budget+":"+p.loopEdge(), fmt.Sprintf("request %d (%s) exceeded the %s budget (steps=%d): processing does not terminate\nprogram:\n%s", i, r.Spec.URL, r.Budget, r.Steps, vcl))
			break
		}
		if r.Proc == nil {
			res.Violate("C06/response", "C06/no-process-report", fmt.Sprintf("request %d: response is not the process report: code=%d body=%q", i, r.Code, clip(string(r.Raw), 200)))
			break
		}
		obs := r.Proc.lifecycle()
		originOK := func(n int) bool {
			if n < len(r.Trips) {
				k := r.Trips[n].Kind
				return k == "ok" || k == "slow-within-timeout"
			}
			return true
		}
		hash := r.Spec.URL
		if p.HashVary {
			hash += "|" + r.Spec.Header.Get("X-V")
		}
		v := expect(p, m, hash, r.StartedAt, obs, originOK)
		sigParts = append(sigParts, fmt.Sprintf("%d:%s:%s|%s|e%v|o%v|c%v", i, r.Spec.URL, advClass(r.Spec.Advance, p.TTL), strings.Join(obs, ">"), v.wantError, v.openEnded, r.Proc.Cached))
		c.Logf("req %d %s obs=%v exp=%v exact=%v err=%v open=%v(%s) restarts=%d/%d error=%q", i, r.Spec.URL, obs, v.path, v.exact, v.wantError, v.openEnded, v.why, r.Proc.Restarts, v.restarts, clip(r.Proc.Error, 80))
		reported := r.Proc.Error != ""
		// 1. path
		switch {
		case v.exact:
			if !equalStr(obs, v.path) {
				res.Violate("C06/path", "C06/path:"+firstDivergence(obs, v.path), fmt.Sprintf("request %d (%s): lifecycle %v, the state machine prescribes %v\nprogram:\n%s", i, r.Spec.URL, obs, v.path, vcl))
			} else if reported {
				res.Violate("C06/path", "C06/unexpected-error:"+clip(r.Proc.Error, 50), fmt.Sprintf("request %d (%s): legal path %v ended in a reported error: %s\nprogram:\n%s", i, r.Spec.URL, obs, r.Proc.Error, vcl))
			}
		case v.wantError:
			if !reported {
				res.Violate("C06/restart-bound", "C06/restart-bound:no-error", fmt.Sprintf("request %d (%s): %s must end in a reported error; lifecycle %v restarts=%d\nprogram:\n%s", i, r.Spec.URL, v.why, obs, r.Proc.Restarts, vcl))
			} else if !equalStr(obs, v.path) {
				res.Violate("C06/path", "C06/path:"+firstDivergence(obs, v.path), fmt.Sprintf("request %d (%s): lifecycle %v, expected %v then a reported error (%s)\nprogram:\n%s", i, r.Spec.URL, obs, v.path, v.why, vcl))
			}
		case v.openEnded:
			if !hasPrefix(obs, v.path) && !(reported && hasPrefix(v.path, obs)) {
				res.Violate("C06/path", "C06/path:"+firstDivergence(obs, v.path), fmt.Sprintf("request %d (%s): lifecycle %v does not start with the prescribed %v (then unconstrained: %s)\nprogram:\n%s", i, r.Spec.URL, obs, v.path, v.why, vcl))
			}
		}
		// 2. generic invariants
		if r.Proc.Restarts > 3 {
			res.Violate("C06/restart-bound", "C06/restart-bound:count", fmt.Sprintf("request %d: restarts=%d > 3\nprogram:\n%s", i, r.Proc.Restarts, vcl))
		}
		nRecv := 0
		for _, s := range obs {
			if s == "recv" {
				nRecv++
			}
		}
		if nRecv > 4 {
			res.Violate("C06/restart-bound", "C06/restart-bound:recv-entries", fmt.Sprintf("request %d: vcl_recv entered %d times\nprogram:\n%s", i, nRecv, vcl))
		}
		if !reported {
			nLog := 0
			for _, s := range obs {
				if s == "log" {
					nLog++
				}
			}
			if nLog != 1 || len(obs) == 0 || obs[len(obs)-1] != "log" {
				res.Violate("C06/log-last-once", "C06/log-last-once:"+fmt.Sprint(nLog), fmt.Sprintf("request %d (%s) ended without a reported error but vcl_log ran %d times / is not last: %v\nprogram:\n%s", i, r.Spec.URL, nLog, obs, vcl))
			}
			if v.exact && r.Proc.Restarts != v.restarts {
				res.Violate("C06/restarts", "C06/restarts-count", fmt.Sprintf("request %d: restarts reported %d, model %d (%v)\nprogram:\n%s", i, r.Proc.Restarts, v.restarts, obs, vcl))
			}
		}
		// 2b. nothing to deliver: the miss branch went straight to vcl_deliver
		// (deliver_stale) although this request fetched nothing, and no object was
		// ever stored under its hash — there is no stale object in any
		// implementation — and no vcl_error ran since the last (re-)entry of
		// vcl_recv. The response delivered then can only be a left-over of an
		// earlier pass of the request, which a restart discards.
		if !reported && len(m.cache[hash]) == 0 && !contains(obs, "fetch") {
			lastRecv := 0
			for k, sname := range obs {
				if sname == "recv" {
					lastRecv = k
				}
			}
			final := obs[lastRecv:]
			for k := 0; k+1 < len(final); k++ {
				if final[k] == "miss" && final[k+1] == "deliver" && !contains(final, "error") {
					res.Violate("C06/path", "C06/path:miss→deliver(nothing to deliver)", fmt.Sprintf("request %d (%s): the final pass %v goes from vcl_miss to vcl_deliver without an error, but the request fetched nothing and no object was ever stored under its hash: whatever was delivered is a left-over of a pass before the restart\nwhole lifecycle: %v\nprogram:\n%s", i, r.Spec.URL, final, obs, vcl))
					break
				}
			}
		}
		// 3. lookup/hit/miss consistency with persistent state and reports
		if i == 0 && contains(obs, "hit") && !afterRestart(obs, "hit") {
			res.Violate("C06/cache", "C06/cache:hit-on-fresh-simulator", fmt.Sprintf("first request to a fresh simulator took the hit branch: %v\nprogram:\n%s", obs, vcl))
		}
		if v.exact && !reported && r.Proc.Restarts == 0 {
			branchHit := contains(obs, "hit")
			xc := r.Proc.ClientResponse.Headers["x-cache"]
			if contains(obs, "deliver") && p.B["deliver"].at(0) == "" || contains(obs, "deliver") {
				if branchHit && xc != "HIT" || !branchHit && xc == "HIT" {
					res.Violate("C06/report", "C06/report:x-cache", fmt.Sprintf("request %d: lifecycle %v but X-Cache=%q\nprogram:\n%s", i, obs, xc, vcl))
				}
			}
			if r.Proc.Cached != branchHit {
				res.Violate("C06/report", "C06/report:cached-flag", fmt.Sprintf("request %d: lifecycle %v (hit branch taken: %v) but the report says cached=%v\nprogram:\n%s", i, obs, branchHit, r.Proc.Cached, vcl))
			}
			// origin requests: a final pass through fetch means exactly one origin request, a HIT none
			if branchHit && !contains(obs, "fetch") && len(r.Trips) != 0 {
				res.Violate("C06/cache", "C06/cache:origin-on-hit", fmt.Sprintf("request %d: HIT but %d origin requests\nprogram:\n%s", i, len(r.Trips), vcl))
			}
			if contains(obs, "fetch") && len(r.Trips) != 1 {
				res.Violate("C06/cache", "C06/cache:origin-count", fmt.Sprintf("request %d: fetch ran but %d origin requests were made\nprogram:\n%s", i, len(r.Trips), vcl))
			}
			if contains(obs, "deliver") {
				if got := r.Proc.ClientResponse.Headers["x-marker"]; got != r.Spec.Header.Get("X-Marker") {
					res.Violate("C06/state", "C06/state:marker", fmt.Sprintf("request %d: response carries marker %q, request sent %q\nprogram:\n%s", i, got, r.Spec.Header.Get("X-Marker"), vcl))
				}
			}
		}
		// 3b. with restarts: X-Cache reflects the branch of the final pass
		if v.exact && !reported && r.Proc.Restarts > 0 && contains(obs, "deliver") {
			last := 0
			for k, sc := range obs {
				if sc == "recv" {
					last = k
				}
			}
			final := obs[last:]
			xc := r.Proc.ClientResponse.Headers["x-cache"]
			if contains(final, "hit") && xc != "HIT" {
				res.Violate("C06/report", "C06/report:x-cache-after-restart", fmt.Sprintf("request %d: final pass %v took the hit branch but X-Cache=%q\nprogram:\n%s", i, final, xc, vcl))
			}
			if !contains(final, "hit") && (contains(final, "miss") || contains(final, "pass")) && xc == "HIT" {
				res.Violate("C06/report", "C06/report:x-cache-after-restart", fmt.Sprintf("request %d: final pass %v did not take the hit branch but X-Cache=HIT\nprogram:\n%s", i, final, vcl))
			}
		}
		// 4. rate counter and penalty box persistence
		if p.RateDelta > 0 && contains(obs, "deliver") && !reported && r.Proc.Restarts == 0 && len(obs) > 0 {
			client := r.Spec.Header.Get("X-Client")
			own := 0
			fmt.Sscanf(r.Spec.Header.Get("X-Delta"), "%d", &own)
			lo, hi := own, own // own increment is always in the current bucket
			for _, inc := range m.incs {
				if inc.client != client {
					continue
				}
				age := r.StartedAt.Sub(inc.at)
				if age < 50*time.Second {
					lo += inc.delta
				}
				if age < 60*time.Second+eps {
					hi += inc.delta
				}
			}
			var got int
			fmt.Sscanf(r.Proc.ClientResponse.Headers["x-bucket"], "%d", &got)
			if got < lo || got > hi {
				res.Violate("C06/state", "C06/state:ratecounter", fmt.Sprintf("request %d: ratecounter bucket.60s reads %q, increments by earlier requests imply [%d,%d]\nprogram:\n%s", i, r.Proc.ClientResponse.Headers["x-bucket"], lo, hi, vcl))
			} else if lo > own {
				res.Probe("ratecounter_carried_over")
			}
			if own == 0 {
				res.Probe("zero_delta_request")
			}
		}
		if p.Penalty && r.Spec.Header.Get("X-Check") != "" && contains(obs, "deliver") && !reported && r.Proc.Restarts == 0 {
			client := r.Spec.Header.Get("X-Client")
			must, mustNot := false, true
			for _, pa := range m.penalties {
				if pa.client != client {
					continue
				}
				exp := pa.at.Add(pa.ttl)
				if r.StartedAt.Before(exp.Add(-eps)) {
					must = true
				}
				if r.StartedAt.Before(exp.Add(eps)) {
					mustNot = false
				}
			}
			got := r.Proc.ClientResponse.Headers["x-boxed"]
			if must && got != "1" {
				res.Violate("C06/state", "C06/state:penaltybox-lost", fmt.Sprintf("request %d: client %s was put in the penalty box by an earlier request and the TTL has not passed, but penaltybox_has is false\nprogram:\n%s", i, client, vcl))
			} else if must {
				res.Probe("penaltybox_carried_over")
			}
			if mustNot && got == "1" {
				res.Violate("C06/state", "C06/state:penaltybox-phantom", fmt.Sprintf("request %d: client %s reads as boxed although no unexpired entry exists\nprogram:\n%s", i, client, vcl))
			}
		}
		// ---- update the model's persistent state from what happened ----------
		if contains(obs, "recv") {
			client := r.Spec.Header.Get("X-Client")
			if p.RateDelta > 0 {
				own := 0
				fmt.Sscanf(r.Spec.Header.Get("X-Delta"), "%d", &own)
				if own > 0 {
					m.incs = append(m.incs, rateInc{r.StartedAt, client, own})
				}
			}
			if p.Penalty && r.Spec.Header.Get("X-Punish") != "" {
				m.penalties = append(m.penalties, penaltyAdd{r.StartedAt, client, 2 * time.Minute})
			}
		}
		for ti, t := range r.Trips {
			_ = ti
			if !strings.HasPrefix(t.Result, "status:") {
				continue
			}
			if t.Kind == "body-error" || t.Kind == "short-body" {
				// the transfer broke off inside the body: no fetch of this object
				// has succeeded, there is nothing to store
				res.Probe("origin_transfer_broke_off_inside_body")
				continue
			}
			// every completed fetch may have stored something under this hash
			definite := v.exact && r.Proc.Restarts == 0 && !reported && t.Result == "status:200" && p.Cacheable &&
				equalStr(obs, []string{"recv", "hash", "miss", "fetch", "deliver", "log"}) && (p.B["fetch"].at(0) == "" || p.B["fetch"].at(0) == "ret:deliver")
			if p.Fresh == "expires-past" {
				// the origin says the response expired long ago: there is no
				// unexpired object to store, whatever the simulator does with it
				res.Probe("origin_sent_expired_response")
				continue
			}
			m.cache[hash] = append(m.cache[hash], cacheEntry{storedAt: t.Done, expiry: t.Done.Add(p.TTL), definite: definite})
			if !p.Cacheable {
				// not cacheable: nothing may be stored; keep a non-definite marker only
				m.cache[hash][len(m.cache[hash])-1].definite = false
			}
		}
		if contains(obs, "hit") {
			res.Probe("hit_branch_taken")
		}
		if r.Proc.Restarts == 3 {
			res.Probe("restart_limit_reached")
		}
		if c.Render {
			rendered = append(rendered, map[string]any{"request": r.Spec.URL, "advance": r.Spec.Advance.String(), "lifecycle": obs, "model_path": v.path, "model": map[string]any{"exact": v.exact, "want_error": v.wantError, "open_ended": v.openEnded, "why": v.why}, "restarts": r.Proc.Restarts, "cached": r.Proc.Cached, "x-cache": r.Proc.ClientResponse.Headers["x-cache"], "error": clip(r.Proc.Error, 120), "origin_trips": len(r.Trips), "started_at": r.StartedAt.Format("15:04:05.000"), "client": r.Spec.Header.Get("X-Client"), "x-bucket": r.Proc.ClientResponse.Headers["x-bucket"], "x-boxed": r.Proc.ClientResponse.Headers["x-boxed"]})
		}
	}
	res.Sig = strings.Join(sigParts, ";") + fmt.Sprintf("|f%v", faulty)
	nonDefault := false
	for _, s := range scopes {
		if p.B[s].Then != "" || p.B[s].K > 0 {
			nonDefault = true
		}
	}
	res.Nontrivial = nonDefault || len(recs) >= 2
	if c.Render {
		res.Rendering = map[string]any{"program": p.signature(), "vcl": vcl, "requests": rendered}
	}
}

func (p *programL) crashEdge(r *respRec) string {
	if r.Proc != nil {
		return ""
	}
	return "edge=" + p.signature()
}

func (p *programL) loopEdge() string {
	var parts []string
	for _, s := range scopes {
		b := p.B[s]
		for _, a := range []string{b.First, b.Then} {
			if a == "restart" || a == "ret:restart" {
				parts = append(parts, s+":"+a)
			}
		}
	}
	sort.Strings(parts)
	if len(parts) > 2 {
		parts = parts[:2]
	}
	return strings.Join(parts, ",")
}

func clip(s string, n int) string {
	if len(s) > n {
		return s[:n]
	}
	return s
}

func equalStr(a, b []string) bool {
	if len(a) != len(b) {
		return false
	}
	for i := range a {
		if a[i] != b[i] {
			return false
		}
	}
	return true
}

func hasPrefix(a, prefix []string) bool {
	if len(prefix) > len(a) {
		return false
	}
	return equalStr(a[:len(prefix)], prefix)
}

func contains(a []string, s string) bool {
	for _, x := range a {
		if x == s {
			return true
		}
	}
	return false
}

func afterRestart(obs []string, s string) bool {
	seenRecv := 0
	for _, x := range obs {
		if x == "recv" {
			seenRecv++
		}
		if x == s {
			return seenRecv > 1
		}
	}
	return false
}

// firstDivergence names the edge where observed and expected part ways:
// "<last common scope>→<observed next>(want <expected next>)".
func firstDivergence(obs, exp []string) string {
	i := 0
	for i < len(obs) && i < len(exp) && obs[i] == exp[i] {
		i++
	}
	last := "START"
	if i > 0 {
		last = obs[i-1]
	}
	o, e := "END", "END"
	if i < len(obs) {
		o = obs[i]
	}
	if i < len(exp) {
		e = exp[i]
	}
	return fmt.Sprintf("%s→%s(want %s)", last, o, e)
}

func advClass(d, ttl time.Duration) string {
	switch {
	case d == 0:
		return "0"
	case d < ttl:
		return "<ttl"
	case d < 2*ttl:
		return ">ttl"
	}
	return ">>ttl"
}
