package world

import (
	"fmt"
	"net/http"
	"os"
	"sort"
	"strings"
	"time"

	"falcosim/sim/simhook"
	"falcosim/sim/simnet"
	"falcosim/sim/worker"
)

// ---------------------------------------------------------------------------
// C08 — simulation is total and bounded.
//
// Same world as C06; the simulator decides origin faults, stalls and loops,
// the clock, the module store's include graph and the request history.
// Oracle: every ServeHTTP returns with a status written, no panic, no bubble
// deadlock, step / round-trip / resolve budgets respected, restarts <= 3.
// ---------------------------------------------------------------------------

// chanLocks is the minimal scheduler of the sequential world: cooperative
// locks implemented with channels, so that a request blocked on the
// interpreter's lock is *durably* blocked and synctest reports the deadlock
// instead of hanging a real mutex.
type chanLocks struct {
	locks map[any]chan struct{}
}

func (c *chanLocks) Yield(string)           {}
func (c *chanLocks) Register(string) func() { return func() {} }
func (c *chanLocks) get(obj any) chan struct{} {
	ch := c.locks[obj]
	if ch == nil {
		ch = make(chan struct{}, 1)
		c.locks[obj] = ch
	}
	return ch
}
func (c *chanLocks) Lock(obj any, write bool)   { c.get(obj) <- struct{}{} }
func (c *chanLocks) Unlock(obj any, write bool) { <-c.get(obj) }

var boundaryInts = []string{"0", "1", "-1", "2", "63", "64", "65", "-64", "2147483648", "9223372036854775807", "-9223372036854775807", "4294967296"}
var boundaryFloats = []string{"0.0", "0.5", "-0.5", "1.0", "-1.0", "1e308", "0.000001", "1e-320", "3.999"}
var boundaryRTimes = []string{"0s", "1s", "-1s", "500ms", "9999999h", "1ms"}
var boundaryStrings = []string{`""`, `"a"`, `"0"`, `"-1"`, `"1e999"`, `"abc%20d"`, `req.http.Not-Set`, `"9223372036854775808"`}
var assignOps = []string{"=", "+=", "-=", "*=", "/=", "%=", "|=", "&=", "^=", "<<=", ">>=", "rol=", "ror=", "&&=", "||="}

type localVar struct{ name, typ string }

var locals = []localVar{{"var.i", "INTEGER"}, {"var.f", "FLOAT"}, {"var.s", "STRING"}, {"var.b", "BOOL"}, {"var.r", "RTIME"}, {"var.t", "TIME"}, {"var.ip", "IP"}}

func operandFor(c *worker.Ctx) string {
	switch c.T.Draw(7) {
	case 0:
		return boundaryInts[c.T.Draw(len(boundaryInts))]
	case 1:
		return boundaryFloats[c.T.Draw(len(boundaryFloats))]
	case 2:
		return boundaryRTimes[c.T.Draw(len(boundaryRTimes))]
	case 3:
		return boundaryStrings[c.T.Draw(len(boundaryStrings))]
	case 4:
		return []string{"true", "false"}[c.T.Draw(2)]
	case 5:
		return locals[c.T.Draw(len(locals))].name
	default:
		return []string{"now", "client.ip", "req.restarts", "req.http.X-A", "req.url", "std.atoi(req.http.X-N)", "std.atof(req.http.X-N)", "std.strlen(req.http.X-A)", "time.sub(now, 9999999h)", "req.http.X-A:a", "req.http.X-A:b", "subfield(req.http.X-A, \"a\", \",\")", "subfield(req.http.X-A, \"a\")", "req.http.Cookie:k"}[c.T.Draw(14)]
	}
}

// soupProgram: declarations and a vcl_recv full of assignments with boundary
// operands; the request then goes through lookup with default subroutines.
func soupProgram(c *worker.Ctx) (string, bool) {
	var b strings.Builder
	boundary := false
	b.WriteString("backend F_origin { .host = \"origin.test\"; .port = \"80\"; .first_byte_timeout = 5s; }\n")
	b.WriteString("sub vcl_recv {\n")
	for _, l := range locals {
		fmt.Fprintf(&b, "  declare local %s %s;\n", l.name, l.typ)
	}
	b.WriteString("  set var.i = 7; set var.f = 1.5; set var.s = \"s\"; set var.r = 10s; set var.ip = \"192.0.2.1\";\n")
	exprFirst := c.T.Bool(1, 2) // a runtime error ends the subroutine: whichever block comes first is the one that runs in full
	var assigns, exprs strings.Builder
	n := 1 + c.T.Draw(8)
	for i := 0; i < n; i++ {
		w := &assigns
		var target string
		if c.T.Bool(1, 5) {
			target = []string{"req.http.X-A", "req.http.X-N", "req.http.Cookie:k", "req.url", "req.hash", "req.max_stale_if_error", "req.backend.x"}[c.T.Draw(7)]
		} else {
			target = locals[c.T.Draw(len(locals))].name
		}
		op := assignOps[c.T.Draw(len(assignOps))]
		val := operandFor(c)
		fmt.Fprintf(w, "  set %s %s %s;\n", target, op, val)
		boundary = true
	}
	// expression shapes: signed and negated operands at every position of a
	// concatenation, in conditions and on the right of every local's type
	ne := c.T.Draw(9)
	for i := 0; i < ne; i++ {
		w := &exprs
		pfx := func() string { return []string{"", "", "+", "-"}[c.T.Draw(4)] }
		lv := func() string { return locals[c.T.Draw(len(locals))].name }
		lit := func() string {
			return []string{`"s"`, `"/"`, `""`, "req.url", "req.http.X-A", "req.http.Not-Set", "now", "10s", "1", "1.5"}[c.T.Draw(10)]
		}
		op := func() string { return []string{" ", " + ", " "}[c.T.Draw(3)] }
		switch c.T.Draw(7) {
		case 0:
			fmt.Fprintf(w, "  set req.http.X-A = %s%s%s%s;\n", pfx(), lv(), op(), lit())
		case 1:
			fmt.Fprintf(w, "  set var.s = %s%s%s%s%s%s;\n", lit(), op(), pfx(), lv(), op(), lit())
		case 2:
			fmt.Fprintf(w, "  log %s%s%s%s%s%s%s;\n", pfx(), lv(), op(), lit(), op(), pfx(), lv())
		case 3:
			l := locals[c.T.Draw(len(locals))]
			fmt.Fprintf(w, "  set %s = %s%s;\n", l.name, pfx(), l.name)
		case 4:
			fmt.Fprintf(w, "  if (%s%s %s %s%s) { log \"c\"; }\n", pfx(), lv(), []string{"==", "!=", ">", "<", ">=", "<=", "~", "!~"}[c.T.Draw(8)], pfx(), lv())
		case 5:
			fmt.Fprintf(w, "  if (!var.b && (%s%s == %s || !(%s))) { log \"c\"; }\n", pfx(), lv(), lit(), []string{"var.b", "req.http.X-A", "var.s", "var.i == 1"}[c.T.Draw(4)])
		default:
			fmt.Fprintf(w, "  set req.http.X-A = if(%s%s %s %s, %s%s, %s);\n", pfx(), lv(), []string{"==", ">", "~"}[c.T.Draw(3)], lit(), pfx(), lv(), lit())
		}
		boundary = true
	}
	if exprFirst {
		b.WriteString(exprs.String())
		b.WriteString(assigns.String())
	} else {
		b.WriteString(assigns.String())
		b.WriteString(exprs.String())
	}
	if c.T.Bool(1, 3) {
		b.WriteString("  log var.i var.f var.s var.b var.r var.t var.ip;\n")
	}
	b.WriteString("  return(lookup);\n}\n")
	return b.String(), boundary
}

// directorProgram: backends behind a director of every type with boundary
// weights, quorums and chash parameters; the request is sent through it.
func directorProgram(c *worker.Ctx) string {
	var b strings.Builder
	nb := 1 + c.T.Draw(4)
	for i := 0; i < nb; i++ {
		fmt.Fprintf(&b, "backend F_b%d { .host = \"origin%d.test\"; .port = \"80\"; .first_byte_timeout = 5s; }\n", i, i)
	}
	typ := []string{"random", "fallback", "hash", "client", "chash"}[c.T.Draw(5)]
	fmt.Fprintf(&b, "director d_main %s {\n", typ)
	if c.T.Bool(1, 2) {
		fmt.Fprintf(&b, "  .quorum = %d%%;\n", []int{0, 1, 50, 100, 101, 1000}[c.T.Draw(6)])
	}
	if typ == "random" && c.T.Bool(1, 2) {
		fmt.Fprintf(&b, "  .retries = %d;\n", []int{0, 1, 3, 100}[c.T.Draw(4)])
	}
	if typ == "chash" {
		if c.T.Bool(1, 2) {
			fmt.Fprintf(&b, "  .key = %s;\n", []string{"object", "client"}[c.T.Draw(2)])
		}
		if c.T.Bool(1, 2) {
			fmt.Fprintf(&b, "  .seed = %s;\n", []string{"0", "1", "4294967295", "9223372036854775807"}[c.T.Draw(4)])
		}
		if c.T.Bool(1, 2) {
			fmt.Fprintf(&b, "  .vnodes_per_node = %s;\n", []string{"0", "1", "256", "8388607"}[c.T.Draw(4)])
		}
	}
	nm := c.T.Draw(nb + 2)
	for k := 0; k < nm; k++ {
		w := []string{"0", "1", "2", "100", "999", "1000", "1001", "2147483647", "9223372036854775807"}[c.T.Draw(9)]
		if typ == "fallback" && c.T.Bool(1, 2) {
			fmt.Fprintf(&b, "  { .backend = F_b%d; }\n", c.T.Draw(nb))
		} else {
			fmt.Fprintf(&b, "  { .backend = F_b%d; .weight = %s; }\n", c.T.Draw(nb), w)
		}
	}
	b.WriteString("}\n")
	target := "d_main"
	if c.T.Bool(1, 4) {
		// directors that are members of directors: a chain, a ring (every member
		// is declared after the director that names it, or before), or a director
		// that is its own member; the request goes through the first of them
		k := 1 + c.T.Draw(3)
		ring := c.T.Bool(1, 2)
		order := c.T.Bool(1, 2)
		var ds []string
		for i := 0; i < k; i++ {
			member := fmt.Sprintf("d_r%d", (i+1)%k)
			if !ring && i == k-1 {
				member = "F_b0"
			}
			ds = append(ds, fmt.Sprintf("director d_r%d %s {\n  { .backend = %s; .weight = 1; }\n  { .backend = F_b0; .weight = %d; }\n}\n", i, []string{"random", "fallback", "hash", "client"}[c.T.Draw(4)], member, c.T.Draw(2)))
		}
		if order {
			for i := len(ds) - 1; i >= 0; i-- {
				b.WriteString(ds[i])
			}
		} else {
			for _, d := range ds {
				b.WriteString(d)
			}
		}
		target = "d_r0"
	}
	fmt.Fprintf(&b, "sub vcl_recv {\n  set req.backend = %s;\n", target)
	if c.T.Bool(1, 3) {
		b.WriteString("  set client.identity = req.http.X-A;\n")
	}
	fmt.Fprintf(&b, "  return(%s);\n}\n", []string{"lookup", "pass"}[c.T.Draw(2)])
	return b.String()
}

// sparseProgram: programs that declare only some lifecycle subroutines
// (possibly none), possibly no backend at all, with one-line bodies; and
// matches of backtracking-heavy patterns against the request's URL.
func sparseProgram(c *worker.Ctx) string {
	var b strings.Builder
	nb := c.T.Draw(3)
	for i := 0; i < nb; i++ {
		fmt.Fprintf(&b, "backend F_b%d { .host = \"origin%d.test\"; .port = \"80\"; .first_byte_timeout = 5s; }\n", i, i)
	}
	if nb > 0 && c.T.Bool(1, 3) {
		// directors, possibly nested and possibly empty
		b.WriteString("director d_in random { { .backend = F_b0; .weight = 1; } }\n")
		b.WriteString([]string{"director d_out random { { .backend = d_in; .weight = 1; } }\n", "director d_out fallback { { .backend = d_in; } { .backend = F_b0; } }\n", "director d_out hash { .quorum = 1%; { .backend = d_in; .weight = 1; } }\n", "director d_out random { }\n"}[c.T.Draw(4)])
	}
	bodies := map[string][]string{
		"recv":    {"set req.backend = req.backend;", "set req.backend = d_out;", "set req.http.X-A = req.backend;", "if (req.url ~ \"^/(a+)+$\") { esi; }", "if (req.url ~ \"^(([a-z])+.)+[A-Z]([a-z])+$\") { esi; }", "if (req.http.X-A ~ \"(x+x+)+y\") { esi; }", "set req.http.X-A = regsuball(req.url, \"(a*)*b\", \"\\1\");", "return(lookup);", "return(pass);", "error 700;", "restart;", ""},
		"hash":    {"set req.hash += req.url;", "return(hash);", ""},
		"hit":     {"return(deliver);", "return(pass);", "restart;", ""},
		"miss":    {"return(fetch);", "set req.backend = d_out;", "return(pass);", ""},
		"pass":    {"return(pass);", ""},
		"fetch":   {"set beresp.ttl = 10s;", "return(deliver);", "restart;", "set req.backend = req.backend;", ""},
		"error":   {"set obj.status = 200;", "synthetic \"e\";", "return(deliver);", "restart;", ""},
		"deliver": {"set resp.http.X = req.backend;", "return(deliver);", "restart;", ""},
		"log":     {"log req.backend;", ""},
	}
	for _, sc := range scopes {
		if c.T.Bool(1, 2) {
			continue // this subroutine is not declared at all
		}
		opts := bodies[sc]
		fmt.Fprintf(&b, "sub vcl_%s {\n  %s\n}\n", sc, opts[c.T.Draw(len(opts))])
	}
	return b.String()
}

// recursionProgram: recursive and mutually recursive subroutines and
// functional subroutines; the call-depth guard must end them.
func recursionProgram(c *worker.Ctx) string {
	var b strings.Builder
	b.WriteString("backend F_origin { .host = \"origin.test\"; .port = \"80\"; }\n")
	switch c.T.Draw(7) {
	case 4:
		// call forms with argument lists that do and do not match the callee
		callee := []string{"sub a { log \"a\"; }", "sub a(STRING var.x) { log var.x; }", "sub a(STRING var.x, INTEGER var.n) BOOL { return var.n > 0; }", "sub a() STRING { return \"s\"; }"}[c.T.Draw(4)]
		args := []string{"", "()", "(\"x\")", "(\"x\", 1)", "(1, \"x\")", "(true, now, 1.5)", "(req.http.Not-Set, -1)"}[c.T.Draw(7)]
		scope := []string{"vcl_recv", "vcl_fetch", "vcl_deliver", "vcl_error", "vcl_log"}[c.T.Draw(5)]
		fmt.Fprintf(&b, "%s\nsub helper { call a%s; }\n", callee, args)
		if scope == "vcl_recv" {
			fmt.Fprintf(&b, "sub vcl_recv { call %s; return(lookup); }\n", []string{"helper", "a" + args}[c.T.Draw(2)])
		} else {
			fmt.Fprintf(&b, "sub vcl_recv { return(%s); }\nsub %s { call %s; }\n", []string{"lookup", "error"}[c.T.Draw(2)], scope, []string{"helper", "a" + args}[c.T.Draw(2)])
		}
	case 5, 6:
		// state-changing statements inside functional subroutines, reached through call or an expression
		act := []string{"restart;", "error 600;", "return(restart);", "return true;", "esi;", "return(lookup);", "synthetic \"x\";"}[c.T.Draw(7)]
		wrap := act
		if c.T.Bool(1, 2) {
			wrap = "if (req.restarts < 10) { " + act + " }"
		}
		scope := []string{"vcl_recv", "vcl_hit", "vcl_fetch", "vcl_deliver", "vcl_error"}[c.T.Draw(5)]
		use := []string{"call f();", "if (f()) { log \"t\"; }", "declare local var.b BOOL; set var.b = f();"}[c.T.Draw(3)]
		fmt.Fprintf(&b, "sub f() BOOL { %s return false; }\n", wrap)
		if scope == "vcl_recv" {
			fmt.Fprintf(&b, "sub vcl_recv { %s return(lookup); }\n", use)
		} else {
			fmt.Fprintf(&b, "sub vcl_recv { return(%s); }\nsub vcl_fetch { set beresp.ttl = 60s; }\nsub %s { %s }\n", []string{"lookup", "error", "pass"}[c.T.Draw(3)], scope, use)
			if scope == "vcl_fetch" {
				// two definitions of vcl_fetch are concatenated by falco
			}
		}
	case 0:
		b.WriteString("sub a { call a; }\nsub vcl_recv { call a; return(lookup); }\n")
	case 1:
		b.WriteString("sub a { call b; }\nsub b { call a; }\nsub vcl_recv { call a; return(lookup); }\n")
	case 2:
		b.WriteString("sub f(INTEGER var.n) INTEGER { return f(var.n); }\nsub vcl_recv { declare local var.x INTEGER; set var.x = f(1); return(lookup); }\n")
	default:
		b.WriteString("sub f(INTEGER var.n) INTEGER { return g(var.n); }\nsub g(INTEGER var.n) INTEGER { return f(var.n); }\nsub vcl_deliver { declare local var.x INTEGER; set var.x = f(1); }\nsub vcl_recv { return(lookup); }\n")
	}
	return b.String()
}

// includeProgram: an include graph over a few modules with self and mutual
// cycles, at root and inside a subroutine body.
func includeProgram(c *worker.Ctx) (string, map[string]string, string) {
	mods := map[string]string{}
	names := []string{"m0", "m1", "m2", "m3"}
	shape := c.T.Draw(6)
	desc := ""
	var main strings.Builder
	main.WriteString("backend F_origin { .host = \"origin.test\"; .port = \"80\"; }\n")
	inBody := c.T.Bool(1, 2)
	body := func(target string) string { return fmt.Sprintf("include %q;\n", target) }
	switch shape {
	case 0:
		desc = "missing"
		mods["m0"] = "sub helper0 { log \"h\"; }\n"
		main.WriteString(body("nope"))
	case 1:
		desc = "self"
		if inBody {
			mods["m0"] = "include \"m0\";\nlog \"m0\";\n"
		} else {
			mods["m0"] = "include \"m0\";\nsub helper0 { log \"h\"; }\n"
		}
	case 2, 3, 4:
		k := shape // cycle length 2..4
		desc = fmt.Sprintf("cycle%d", k)
		for i := 0; i < k; i++ {
			next := names[(i+1)%k]
			if inBody {
				mods[names[i]] = fmt.Sprintf("include %q;\nlog \"%s\";\n", next, names[i])
			} else {
				mods[names[i]] = fmt.Sprintf("include %q;\nsub helper%d { log \"h\"; }\n", next, i)
			}
		}
	default:
		desc = "dag"
		mods["m0"] = "include \"m1\";\nsub helper0 { log \"h\"; }\n"
		mods["m1"] = "sub helper1 { log \"h\"; }\n"
		if inBody {
			mods["m0"] = "include \"m1\";\nlog \"m0\";\n"
			mods["m1"] = "log \"m1\";\n"
		}
	}
	if inBody {
		desc += "/in-sub"
		main.WriteString("sub vcl_recv {\n  include \"m0\";\n  return(lookup);\n}\n")
	} else {
		desc += "/root"
		if shape != 0 {
			main.WriteString("include \"m0\";\n")
		}
		main.WriteString("sub vcl_recv { return(lookup); }\n")
	}
	return main.String(), mods, desc
}

var hostileMethods = []string{"GET", "POST", "HEAD", "PURGE", "FASTLYPURGE", "OPTIONS", "", "get", "G\x00T", "CONNECT"}
var hostilePaths = []string{"/" + strings.Repeat("a", 40) + "!", "/" + strings.Repeat("ab", 30) + "A!", "/", "/a", "/a?x=1&y=%zz", "//", "/%", "/a b", "*", "", "/\x00", "/a#frag", "/" + strings.Repeat("x", 9000), "/a?" + strings.Repeat("k=v&", 2000)}

func hostileRequest(c *worker.Ctx, i int) reqSpec {
	sp := reqSpec{Method: hostileMethods[c.T.Draw(len(hostileMethods))], URL: hostilePaths[c.T.Draw(len(hostilePaths))], Header: http.Header{}}
	sp.Header.Set("X-Marker", fmt.Sprintf("m%d", i))
	n := c.T.Draw(5)
	for k := 0; k < n; k++ {
		switch c.T.Draw(9) {
		case 0:
			sp.Header.Set("Fastly-FF", "abc!LAX!cache-lax1234-LAX")
		case 1:
			sp.Header.Set("Fastly-FF", "abc!FALCO!cache-localsimulator")
		case 2:
			sp.Header.Set("X-N", boundaryInts[c.T.Draw(len(boundaryInts))])
		case 3:
			sp.Header.Set("X-A", []string{strings.Repeat("v", 1+c.T.Draw(70000)), strings.Repeat("x", 40), strings.Repeat("x", 25) + "z", `a="`, `b=1, a=" , c=3`, `a=",b=2`, `a=`, `a`, `=`, `a="x`, `a=""`, `;a;=;"`, `a="\"`}[c.T.Draw(13)])
		case 4:
			sp.Header["x-lower"] = []string{"a", "b"}
		case 5:
			sp.Header.Set("Cookie", "k=v; k2=\x00; ;=;")
		case 6:
			sp.Header.Set("Host", "")
			sp.Host = []string{"", "a b", "[::1]:80", strings.Repeat("h", 300)}[c.T.Draw(4)]
		case 7:
			sp.Header.Set("Fastly-Debug", "1")
		default:
			sp.Header.Set("Accept-Encoding", "gzip, br;q=0")
		}
	}
	return sp
}

func runC08(c *worker.Ctx) {
	res := c.Res
	workload := c.T.Draw(12)
	if v := os.Getenv("FALCOSIM_C08_WORKLOAD"); v != "" { // debugging aid: force one workload family
		fmt.Sscanf(v, "%d", &workload)
	}
	if workload == 8 {
		runTesterWorkload(c)
		return
	}
	var vcl, wdesc string
	var modules map[string]string
	boundary := false
	selfLoop := false
	switch workload {
	case 0: // family L, wild actions everywhere
		p := &programL{B: map[string]subBehaviour{}, Cacheable: c.T.Bool(1, 2), TTL: 10 * time.Second}
		for _, s := range scopes {
			all := append(append([]string{}, legalActions[s]...), oddActions[s]...)
			sb := subBehaviour{Then: all[c.T.Draw(len(all))]}
			if c.T.Bool(1, 2) {
				sb.Then = ""
			}
			if c.T.Bool(1, 4) {
				sb.K, sb.First = 1+c.T.Draw(3), all[c.T.Draw(len(all))]
			}
			p.B[s] = sb
		}
		vcl, wdesc = p.render(), "lifecycle:"+p.signature()
	case 1:
		vcl, boundary = soupProgram(c)
		wdesc = "assignment-soup"
	case 2:
		vcl = recursionProgram(c)
		wdesc = "recursion"
	case 3:
		var d string
		vcl, modules, d = includeProgram(c)
		wdesc = "include:" + d
	case 5, 6: // W4: built-in functions × boundary arguments (input breadth riding on the world)
		var names string
		vcl, names = builtinProgram(c)
		wdesc = "builtins:" + names
		boundary = true
		if vcl == "" {
			vcl, wdesc = recursionProgram(c), "recursion"
		}
	case 7:
		vcl, wdesc = directorProgram(c), "director"
		boundary = true
	case 11:
		vcl, wdesc = sparseProgram(c), "sparse"
		boundary = true
	case 9, 10: // W5: predefined variables × scopes × request paths
		var names string
		vcl, names = variableProgram(c)
		wdesc = "variables:" + names
		boundary = true
		if vcl == "" {
			vcl, wdesc = recursionProgram(c), "recursion"
		}
	default: // self-loop: the origin is the simulator itself
		p := &programL{B: map[string]subBehaviour{}, Cacheable: false, TTL: 10 * time.Second}
		if c.T.Bool(1, 2) {
			p.B["recv"] = subBehaviour{Then: "ret:pass"}
		}
		vcl, wdesc = p.render(), "self-loop"
		selfLoop = true
	}
	nReq := 1 + c.T.Draw(3)
	var specs []reqSpec
	for i := 0; i < nReq; i++ {
		var sp reqSpec
		if c.T.Bool(1, 2) {
			sp = hostileRequest(c, i)
		} else {
			sp = reqSpec{Method: "GET", URL: []string{"/a", "/b"}[c.T.Draw(2)], Header: http.Header{"X-Marker": {fmt.Sprintf("m%d", i)}}}
			if selfLoop && c.T.Bool(1, 2) {
				sp.Header.Set("Fastly-FF", "abc!LAX!cache-lax1234-LAX")
			}
		}
		if i > 0 {
			sp.Advance = []time.Duration{0, time.Second, 11 * time.Second, time.Hour}[c.T.Draw(4)]
		}
		specs = append(specs, sp)
	}
	faulty := c.T.Bool(1, 2)
	var w *world
	behave := func(req *http.Request, n int) simnet.Behaviour {
		b := simnet.Behaviour{Kind: "ok", Status: 200, Header: http.Header{"Content-Type": {"text/plain"}}, Body: []byte("ok"), BodyErrAfter: -1, Latency: time.Duration(c.T.Draw(50)) * time.Millisecond}
		if selfLoop && n < 3 {
			b.Kind, b.Loop = "self-loop", w.interp
			return b
		}
		if !faulty {
			if c.T.Bool(1, 2) {
				n := int64(len(b.Body))
				b.Announce = &n // an honest Content-Length
			}
			return b
		}
		switch c.T.Draw(16) {
		case 13:
			// the origin announces a length and sends less (it dies, or it lies)
			n := []int64{1 << 62, 1<<63 - 1, 1 << 40, 1 << 20, 3}[c.T.Draw(5)] // beyond any allocation, or small: never in between, so that the outcome does not depend on the memory left
			b.Kind, b.Announce = "length-announced-not-sent", &n
		case 14:
			n := int64(c.T.Draw(2)) // announces 0 or 1 byte, has more
			b.Kind, b.Announce = "length-announced-short", &n
		case 0:
			b.Kind, b.Err = "connect-error", simnet.ErrConnRefused
		case 1:
			b.Kind, b.Err = "dns-error", simnet.ErrDNS
		case 2:
			b.Kind, b.Hang = "hang", true
		case 3:
			b.Kind, b.Latency = "slow-past-timeout", 5*time.Second+eps
		case 4:
			b.Kind, b.Latency = "slow-within-timeout", 5*time.Second-eps
		case 5:
			b.Kind, b.Status = "status-5xx", 500+c.T.Draw(12)
		case 6:
			b.Kind, b.Status = "status-3xx", []int{301, 302, 304, 307}[c.T.Draw(4)]
			b.Header.Set("Location", "/elsewhere")
		case 7:
			b.Kind, b.BodyErrAfter = "body-error", c.T.Draw(3)
		case 8:
			b.Kind, b.BodyErrAfter, b.BodyStall = "body-stall", c.T.Draw(3), true
		case 9:
			b.Kind = "bad-cache-headers"
			b.Header.Set("Cache-Control", []string{"max-age=-1", "max-age=99999999999999999999", "s-maxage=abc", "max-age=", "no-store, max-age=1e9"}[c.T.Draw(5)])
			b.Header.Set("Expires", []string{"Thu, 01 Jan 1970 00:00:00 GMT", "garbage", "0", "Fri, 31 Dec 9999 23:59:59 GMT"}[c.T.Draw(4)])
			b.Header.Set("Surrogate-Control", []string{"max-age=0", "max-age=-5", "max-age=1.5", ""}[c.T.Draw(4)])
		case 10:
			b.Kind = "oversize-headers"
			for k := 0; k < 100; k++ {
				b.Header.Set(fmt.Sprintf("X-Big-%d", k), strings.Repeat("h", 1000))
			}
		case 11:
			b.Kind, b.Body = "big-body", []byte(strings.Repeat("B", 1<<20))
		case 12:
			b.Kind, b.Status = "status-1xx-odd", []int{100, 199, 0, 999, 204}[c.T.Draw(5)]
		}
		return b
	}
	c.Logf("workload %s reqs=%d faulty=%v", wdesc, nReq, faulty)

	var recs []*respRec
	ev := bubble(c.TB, func() {
		w = newWorld(c, vcl, modules, behave)
		simhook.Install(&chanLocks{locks: map[any]chan struct{}{}})
		defer simhook.Uninstall()
		for _, sp := range specs {
			r := w.serve(sp)
			recs = append(recs, r)
			if !r.Returned {
				break
			}
		}
		res.SimSeconds += time.Since(w.start).Seconds()
	})
	simhook.Uninstall()
	simhook.UninstallYield()
	wclass := strings.SplitN(wdesc, ":", 2)[0]
	if strings.HasPrefix(ev, "deadlock") {
		res.Violate("C08/no-deadlock", "C08/deadlock:"+wclass, fmt.Sprintf("the simulator deadlocked (every goroutine blocked forever): %s\nworkload %s\nrequests: %s\nprogram:\n%s", clip(ev, 300), wdesc, describeReqs(specs), vcl))
	} else if strings.HasPrefix(ev, "panic") {
		res.Violate("C08/no-crash", "C08/bubble-panic:"+wclass, fmt.Sprintf("%s\nprogram:\n%s", clip(ev, 600), vcl))
	}
	fired := map[string]bool{}
	term := "ok"
	for i, r := range recs {
		for _, t := range r.Trips {
			res.Fault("origin:" + t.Kind)
			if t.Kind != "ok" {
				fired[t.Kind] = true
			}
			if strings.HasPrefix(t.Result, "ctx:") {
				res.Probe("timeout_fired")
			}
		}
		switch {
		case r.PanicV != nil:
			term = "panic"
			res.Violate("C08/no-crash", "C08/panic:"+r.Stack+":"+clip(numRe.ReplaceAllString(fmt.Sprint(r.PanicV), "N"), 70), fmt.Sprintf("request %d (%s %q) crashed the simulator: %v\nat %s\nworkload %s\nprogram:\n%s", i, r.Spec.Method, clip(r.Spec.URL, 60), r.PanicV, r.Trace, wdesc, vcl))
		case r.Spin:
			term = "spin"
			res.Violate("C08/bounded", "C08/unbounded:"+r.Budget+":"+wclass+":"+r.Stack, fmt.Sprintf("request %d exceeded the %s budget (steps=%d, resolves=%d): it does not terminate\nworkload %s\nprogram:\n%s\nmodules: %v", i, r.Budget, r.Steps, w.store.Calls, wdesc, vcl, modules))
		case !r.Returned:
			term = "no-return"
		default:
			if !r.Wrote {
				res.Violate("C08/response", "C08/no-status-written", fmt.Sprintf("request %d returned without writing a response\nprogram:\n%s", i, vcl))
			}
			if r.Proc != nil {
				if r.Proc.Restarts > 3 {
					res.Violate("C08/restart-bound", "C08/restart-bound", fmt.Sprintf("request %d: restarts=%d\nprogram:\n%s", i, r.Proc.Restarts, vcl))
				}
				if r.Proc.Error != "" {
					term = "reported-error"
					res.Probe("runtime_error_reported")
					if strings.Contains(r.Proc.Error, "call stack") || strings.Contains(r.Proc.Error, "Call stack") || strings.Contains(strings.ToLower(r.Proc.Error), "stack") {
						res.Probe("call_depth_guard_reached")
					}
					if strings.Contains(r.Proc.Error, "restart limit") {
						res.Probe("restart_limit_reached")
					}
				}
			} else {
				res.Probe("non_json_response")
			}
		}
	}
	if w != nil && w.store.Missing > 0 {
		res.Probe("include_missing_module")
	}
	var fk []string
	for k := range fired {
		fk = append(fk, k)
	}
	sort.Strings(fk)
	res.Sig = fmt.Sprintf("%s|%v|%s", wdesc, fk, term)
	res.Nontrivial = len(fired) > 0 || boundary || workload >= 2 || term != "ok"
	if c.Render {
		var rr []any
		for _, r := range recs {
			e := ""
			if r.Proc != nil {
				e = clip(r.Proc.Error, 160)
			}
			var kinds []string
			for _, t := range r.Trips {
				kinds = append(kinds, t.Kind+"→"+t.Result)
			}
			rr = append(rr, map[string]any{"method": r.Spec.Method, "url": clip(r.Spec.URL, 80), "returned": r.Returned, "status": r.Code, "steps": r.Steps, "error": e, "origin": kinds})
		}
		res.Rendering = map[string]any{"workload": wdesc, "vcl": clip(vcl, 3000), "modules": modules, "requests": rr, "bubble_event": ev}
	}
}

func describeReqs(specs []reqSpec) string {
	var parts []string
	for _, s := range specs {
		parts = append(parts, fmt.Sprintf("%s %s FF=%q", s.Method, clip(s.URL, 30), s.Header.Get("Fastly-FF")))
	}
	return strings.Join(parts, "; ")
}
