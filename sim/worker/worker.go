// Package worker is the in-process half of falcosim: a worker is a `go test -c`
// binary of one harness package (built against /repo's working tree, with the
// source overlay) that executes a slice of cases, replays one tape, or shrinks
// one tape, as told by a job file. The driver (cmd/falcosim) owns processes,
// budgets, merging and evidence.
package worker

import (
	"encoding/json"
	"fmt"
	"hash/fnv"
	"os"
	"runtime/debug"
	"sort"
	"strings"
	"testing"
	"time"

	"falcosim/sim/simsync"
	"falcosim/sim/tape"
)

type Violation struct {
	Oracle string `json:"oracle"`
	Key    string `json:"key"`
	Detail string `json:"detail"`
}

// Result is what one executed case reports.
type Result struct {
	Sig        string         // signature for distinct counting
	Nontrivial bool           // by the property's stated rule
	Violations []Violation    // empty: property held on this case
	Faults     map[string]int // fault kinds that actually fired
	Probes     map[string]int // rare-branch probes
	SimSeconds float64        // simulated time covered
	Rendering  any            // human-readable case, only when Ctx.Render
	LogHash    uint64         // hash of the event log (determinism self-test)
}

func (r *Result) Violate(oracle, key, detail string) {
	if len(detail) > 4000 {
		detail = detail[:4000] + "…"
	}
	r.Violations = append(r.Violations, Violation{oracle, key, detail})
}
func (r *Result) Fault(kind string) {
	if r.Faults == nil {
		r.Faults = map[string]int{}
	}
	r.Faults[kind]++
}
func (r *Result) Probe(name string) {
	if r.Probes == nil {
		r.Probes = map[string]int{}
	}
	r.Probes[name]++
}

// Ctx is handed to the engine for each case.
type Ctx struct {
	Property string
	Tier     string
	T        *tape.Tape
	Render   bool
	TB       *testing.T
	Res      *Result

	logHash uint64
	logN    int
	Lines   []string
}

// Logf appends to the event log. It never draws from the tape and never reads
// a real clock.
func (c *Ctx) Logf(format string, args ...any) {
	s := fmt.Sprintf(format, args...)
	h := fnv.New64a()
	var b [8]byte
	for i := 0; i < 8; i++ {
		b[i] = byte(c.logHash >> (8 * i))
	}
	h.Write(b[:])
	h.Write([]byte(s))
	c.logHash = h.Sum64()
	c.logN++
	if c.Render && len(c.Lines) < 2000 {
		c.Lines = append(c.Lines, fmt.Sprintf("@%d %s", c.T.Pos(), s))
	}
}

type Engine struct {
	Name string
	// NumEnum/EnumPrefix describe enumerated sub-spaces: case i < NumEnum runs
	// with the forced tape prefix EnumPrefix(i). NumSampled cases follow.
	NumEnum    func(property, tier string) int
	EnumPrefix func(property, tier string, i int) []uint64
	NumSampled func(property, tier string) int
	Run        func(c *Ctx)
	// Properties served.
	Properties []string
}

type Job struct {
	Mode      string   `json:"mode"` // range | replay | shrink | determinism
	Property  string   `json:"property"`
	Tier      string   `json:"tier"`
	Seed      uint64   `json:"seed"`
	Worker    int      `json:"worker"`
	Workers   int      `json:"workers"`
	Out       string   `json:"out"`
	Crumb     string   `json:"crumb"`
	Deadline  int64    `json:"deadline_unix_ms"` // soft: stop starting new sampled cases
	Tape      []uint64 `json:"tape"`
	Key       string   `json:"key"`
	MaxCases  int      `json:"max_cases"` // 0: engine default
	ShrinkN   int      `json:"shrink_budget"`
	StartCase int      `json:"start_case"`
	Recycle   int      `json:"recycle"` // > 0: a process runs at most this many cases (memory that code under test or its dependencies never give back stays bounded) // range mode: skip case numbers below this (restart after a lost case)
	From      int      `json:"from"`    // determinism mode: cases [from,to)
	To        int      `json:"to"`
}

type Found struct {
	Case      uint64      `json:"case"`
	Tape      []uint64    `json:"tape"`
	Violation Violation   `json:"violation"`
	All       []Violation `json:"all_violations,omitempty"`
	Count     int         `json:"count"`
	Rendering any         `json:"rendering,omitempty"`
	LogHash   string      `json:"log_hash,omitempty"`
	Events    []string    `json:"event_log,omitempty"`
}

type Out struct {
	Mode        string         `json:"mode"`
	Property    string         `json:"property"`
	Evaluations int            `json:"evaluations"`
	EnumTotal   int            `json:"enum_total"`
	EnumDone    int            `json:"enum_done"`
	SampledPlan int            `json:"sampled_plan"`
	SampledDone int            `json:"sampled_done"`
	Distinct    []uint64       `json:"distinct"`
	Faults      map[string]int `json:"faults"`
	Probes      map[string]int `json:"probes"`
	SimSeconds  float64        `json:"sim_seconds"`
	Found       []Found        `json:"found"`
	Samples     []any          `json:"samples"`
	LogHashes   []string       `json:"log_hashes,omitempty"`
	WallS       float64        `json:"wall_s"`
	Shrunk      *Found         `json:"shrunk,omitempty"`
	ShrinkRuns  int            `json:"shrink_runs,omitempty"`
	Error       string         `json:"error,omitempty"`
	// ResumeAt > 0: this process handled its share of cases (Job.Recycle) and
	// stopped; the driver continues with a fresh process from this case.
	ResumeAt int `json:"resume_at,omitempty"`
}

func hash64(s string) uint64 {
	h := fnv.New64a()
	h.Write([]byte(s))
	return h.Sum64()
}

// runOne executes one case on a tape. A panic that escapes the engine is a
// harness bug, never a violation: it is returned as err.
func runOne(e *Engine, job *Job, tb *testing.T, tp *tape.Tape, render bool) (res *Result, ctx *Ctx, err error) {
	res = &Result{}
	ctx = &Ctx{Property: job.Property, Tier: job.Tier, T: tp, Render: render, TB: tb, Res: res}
	defer func() {
		if r := recover(); r != nil {
			err = fmt.Errorf("harness panic: %v\n%s", r, debug.Stack())
		}
	}()
	simsync.ResetPools() // every case starts from empty pools: it replays alone
	e.Run(ctx)
	res.LogHash = ctx.logHash
	return res, ctx, nil
}

func caseTape(e *Engine, job *Job, c int, nEnum int) *tape.Tape {
	var forced []uint64
	if c < nEnum {
		forced = e.EnumPrefix(job.Property, job.Tier, c)
	}
	return tape.New(job.Seed, job.Property, uint64(c), forced)
}

// Main is called from the harness package's TestWorker.
func Main(tb *testing.T, e *Engine) {
	path := os.Getenv("FALCOSIM_JOB")
	if path == "" {
		tb.Skip("FALCOSIM_JOB not set; this binary is driven by bin/falcosim")
	}
	raw, err := os.ReadFile(path)
	if err != nil {
		tb.Fatal(err)
	}
	var job Job
	if err := json.Unmarshal(raw, &job); err != nil {
		tb.Fatal(err)
	}
	start := time.Now()
	out := &Out{Mode: job.Mode, Property: job.Property, Faults: map[string]int{}, Probes: map[string]int{}}
	switch job.Mode {
	case "range":
		runRange(tb, e, &job, out)
	case "replay":
		runReplay(tb, e, &job, out)
	case "shrink":
		runShrink(tb, e, &job, out)
	case "determinism":
		runDeterminism(tb, e, &job, out)
	default:
		out.Error = "unknown mode " + job.Mode
	}
	out.WallS = time.Since(start).Seconds()
	if err := writeOut(&job, out); err != nil {
		tb.Fatal(err)
	}
}

func writeOut(job *Job, out *Out) error {
	b, _ := json.Marshal(out)
	if err := os.WriteFile(job.Out+".tmp", b, 0o644); err != nil {
		return err
	}
	return os.Rename(job.Out+".tmp", job.Out)
}

func crumb(f *os.File, c int) {
	if f != nil {
		f.WriteAt([]byte(fmt.Sprintf("%-20d\n", c)), 0)
	}
}

func runRange(tb *testing.T, e *Engine, job *Job, out *Out) {
	t0 := time.Now()
	nEnum := 0
	if e.NumEnum != nil {
		nEnum = e.NumEnum(job.Property, job.Tier)
	}
	nSamp := e.NumSampled(job.Property, job.Tier)
	if job.MaxCases > 0 && nSamp > job.MaxCases {
		nSamp = job.MaxCases
	}
	out.EnumTotal, out.SampledPlan = nEnum, nSamp
	var cf *os.File
	if job.Crumb != "" {
		cf, _ = os.OpenFile(job.Crumb, os.O_CREATE|os.O_WRONLY, 0o644)
		defer cf.Close()
	}
	distinct := map[uint64]struct{}{}
	found := map[string]*Found{}
	var sampleCases []int
	total := nEnum + nSamp
	ran := 0
	for c := job.Worker; c < total; c += job.Workers {
		if c < job.StartCase {
			continue
		}
		if c >= nEnum && job.Deadline > 0 && time.Now().UnixMilli() > job.Deadline {
			break
		}
		if job.Recycle > 0 && ran >= job.Recycle {
			out.ResumeAt = c
			break
		}
		ran++
		crumb(cf, c)
		tp := caseTape(e, job, c, nEnum)
		res, _, err := runOne(e, job, tb, tp, false)
		if err != nil {
			out.Error = fmt.Sprintf("case %d: %v", c, err)
			return
		}
		out.Evaluations++
		if c < nEnum {
			out.EnumDone++
		} else {
			out.SampledDone++
		}
		if res.Nontrivial {
			distinct[hash64(res.Sig)] = struct{}{}
			if len(sampleCases) < 2 && c >= nEnum {
				sampleCases = append(sampleCases, c)
			}
		}
		for k, v := range res.Faults {
			out.Faults[k] += v
		}
		for k, v := range res.Probes {
			out.Probes[k] += v
		}
		out.SimSeconds += res.SimSeconds
		for i, v := range res.Violations {
			if f, ok := found[v.Key]; ok {
				f.Count++
				continue
			}
			if len(found) >= 12 {
				continue
			}
			f := &Found{Case: uint64(c), Tape: tp.Record(), Violation: v, Count: 1}
			if i == 0 {
				f.All = res.Violations
			}
			found[v.Key] = f
		}
	}
	crumb(cf, -1)
	for h := range distinct {
		out.Distinct = append(out.Distinct, h)
	}
	sort.Slice(out.Distinct, func(i, j int) bool { return out.Distinct[i] < out.Distinct[j] })
	keys := make([]string, 0, len(found))
	for k := range found {
		keys = append(keys, k)
	}
	sort.Strings(keys)
	for _, k := range keys {
		out.Found = append(out.Found, *found[k])
	}
	// The results are on disk before anything else is done: what follows is
	// illustration only, and the driver uses this output should it not finish.
	out.WallS = time.Since(t0).Seconds()
	writeOut(job, out)
	crumb(cf, -2)
	// Render a few of the cases actually explored.
	if job.Worker == 0 || job.Workers > 1<<20 {
		for _, c := range sampleCases {
			tp := caseTape(e, job, c, nEnum)
			res, _, err := runOne(e, job, tb, tp, true)
			if err == nil && res.Rendering != nil {
				out.Samples = append(out.Samples, map[string]any{"case": c, "rendering": res.Rendering})
			}
		}
	}
}

func runReplay(tb *testing.T, e *Engine, job *Job, out *Out) {
	tp := tape.NewReplay(job.Tape)
	res, ctx, err := runOne(e, job, tb, tp, true)
	if err != nil {
		out.Error = err.Error()
		return
	}
	out.Evaluations = 1
	out.Faults, out.Probes = res.Faults, res.Probes
	out.LogHashes = []string{fmt.Sprintf("%016x", res.LogHash)}
	for _, v := range res.Violations {
		f := Found{Tape: tp.Record(), Violation: v, Count: 1, Rendering: res.Rendering,
			LogHash: fmt.Sprintf("%016x", res.LogHash), Events: ctx.Lines}
		out.Found = append(out.Found, f)
	}
	if len(res.Violations) == 0 {
		out.Samples = []any{res.Rendering}
	}
}

func hasKey(res *Result, key string) bool {
	for _, v := range res.Violations {
		if v.Key == key {
			return true
		}
	}
	return false
}

// runShrink minimises job.Tape while a violation with job.Key persists:
// delete spans, zero spans, lower single values. Zero means "simplest choice"
// everywhere in the generators, so shrinking the tape shrinks workload,
// schedule and fault sequence together.
func runShrink(tb *testing.T, e *Engine, job *Job, out *Out) {
	budget := job.ShrinkN
	if budget <= 0 {
		budget = 400
	}
	runs := 0
	// wall-clock cap as well: minimisation stops where it is, the tape found so
	// far is still a reproducing one
	secs := 45
	if v := os.Getenv("FALCOSIM_SHRINK_SECONDS"); v != "" {
		fmt.Sscanf(v, "%d", &secs)
	}
	stopAt := time.Now().Add(time.Duration(secs) * time.Second)
	try := func(vals []uint64) ([]uint64, bool) {
		if runs >= budget || (runs > 0 && time.Now().After(stopAt)) {
			runs = budget
			return nil, false
		}
		runs++
		tp := tape.NewReplay(vals)
		res, _, err := runOne(e, job, tb, tp, false)
		if err != nil || !hasKey(res, job.Key) {
			return nil, false
		}
		rec := tp.Record()
		// Trailing zeros are implied.
		for len(rec) > 0 && rec[len(rec)-1] == 0 {
			rec = rec[:len(rec)-1]
		}
		return rec, true
	}
	cur, ok := try(job.Tape)
	if !ok {
		out.Error = "shrink: original tape does not reproduce key " + job.Key
		return
	}
	improved := true
	for improved && runs < budget {
		improved = false
		// 1. delete spans
		for size := len(cur) / 2; size >= 1 && runs < budget; size /= 2 {
			for i := 0; i+size <= len(cur) && runs < budget; {
				cand := append(append([]uint64{}, cur[:i]...), cur[i+size:]...)
				if r, ok := try(cand); ok && less(r, cur) {
					cur, improved = r, true
				} else {
					i += size
				}
			}
		}
		// 2. zero spans
		for size := len(cur) / 2; size >= 1 && runs < budget; size /= 2 {
			for i := 0; i+size <= len(cur) && runs < budget; i += size {
				allZero := true
				for _, v := range cur[i : i+size] {
					if v != 0 {
						allZero = false
					}
				}
				if allZero {
					continue
				}
				cand := append([]uint64{}, cur...)
				for j := i; j < i+size; j++ {
					cand[j] = 0
				}
				if r, ok := try(cand); ok && less(r, cur) {
					cur, improved = r, true
				}
			}
		}
		// 3. lower single values
		for i := 0; i < len(cur) && runs < budget; i++ {
			for cur[i] > 0 && runs < budget {
				cand := append([]uint64{}, cur...)
				cand[i] = cur[i] / 2
				if r, ok := try(cand); ok && less(r, cur) {
					cur, improved = r, true
					if i >= len(cur) {
						break
					}
				} else {
					if cur[i] > 1 {
						cand[i] = cur[i] - 1
						if r, ok := try(cand); ok && less(r, cur) {
							cur, improved = r, true
							if i >= len(cur) {
								break
							}
							continue
						}
					}
					break
				}
			}
		}
	}
	out.ShrinkRuns = runs
	tp := tape.NewReplay(cur)
	res, ctx, err := runOne(e, job, tb, tp, true)
	if err != nil || !hasKey(res, job.Key) {
		out.Error = "shrink: minimised tape stopped reproducing"
		return
	}
	var v Violation
	for _, x := range res.Violations {
		if x.Key == job.Key {
			v = x
		}
	}
	out.Shrunk = &Found{Tape: cur, Violation: v, All: res.Violations, Count: 1, Rendering: res.Rendering,
		LogHash: fmt.Sprintf("%016x", res.LogHash), Events: ctx.Lines}
}

// less orders tapes: shorter first, then lexicographically smaller.
func less(a, b []uint64) bool {
	if len(a) != len(b) {
		return len(a) < len(b)
	}
	for i := range a {
		if a[i] != b[i] {
			return a[i] < b[i]
		}
	}
	return false
}

func runDeterminism(tb *testing.T, e *Engine, job *Job, out *Out) {
	nEnum := 0
	if e.NumEnum != nil {
		nEnum = e.NumEnum(job.Property, job.Tier)
	}
	for c := job.From; c < job.To; c++ {
		// determinism samples are taken from the sampled space
		tp := caseTape(e, job, nEnum+c, nEnum)
		res, _, err := runOne(e, job, tb, tp, false)
		if err != nil {
			out.Error = err.Error()
			return
		}
		out.Evaluations++
		var ks []string
		for _, v := range res.Violations {
			ks = append(ks, v.Key)
		}
		out.LogHashes = append(out.LogHashes, fmt.Sprintf("%d:%016x:%s:%s", c, res.LogHash, res.Sig, strings.Join(ks, ",")))
	}
}
