// Package simfs is the simulated module store behind falco's own
// resolver.Resolver interface: include targets that exist, are missing,
// include themselves or each other, with a call budget that turns unbounded
// include expansion into a classified sentinel panic long before the Go stack
// is exhausted.
package simfs

import (
	"errors"
	"fmt"
	"strings"

	"github.com/ysugimoto/falco/v2/ast"
	"github.com/ysugimoto/falco/v2/resolver"
)

// ResolveBudget is the panic value raised when Resolve is called more often
// than Budget allows.
var ResolveBudget = errors.New("simfs: Resolve budget exceeded (include expansion does not terminate)")

type Store struct {
	Main     string
	FileName string
	Modules  map[string]string
	Budget   int
	Calls    int
	Missing  int
}

func New(main string, modules map[string]string) *Store {
	return &Store{Main: main, FileName: "main.vcl", Modules: modules, Budget: 10000}
}

func (s *Store) MainVCL() (*resolver.VCL, error) {
	return &resolver.VCL{Name: s.FileName, Data: s.Main}, nil
}

func (s *Store) Resolve(inc *ast.IncludeStatement) (*resolver.VCL, error) {
	stmt := inc.Module.Value
	s.Calls++
	if s.Budget > 0 && s.Calls > s.Budget {
		panic(ResolveBudget)
	}
	// like falco's FileResolver: the module may be written with or without ".vcl"
	key := strings.TrimSuffix(stmt, ".vcl")
	if src, ok := s.Modules[key]; ok {
		return &resolver.VCL{Name: key + ".vcl", Data: src}, nil
	}
	s.Missing++
	return nil, fmt.Errorf("failed to resolve include file: %s.vcl", stmt)
}

func (s *Store) Name() string           { return "" }
func (s *Store) IncludePaths() []string { return nil }
