// Package simexec stands in for os/exec in falco's linter package (lint
// plugins). With no registry installed it is os/exec. With one installed,
// LookPath and Cmd.Output consult in-process plugin actors whose fate —
// found or not, exit status, output, latency, hang — is decided by the harness
// from the tape, and whose start/finish are scheduling points.
package simexec

import (
	"bytes"
	"context"
	"errors"
	"io"
	"os"
	"os/exec"
	"sync/atomic"
	"time"
)

var ErrNotFound = exec.ErrNotFound

type Error = exec.Error
type ExitError = exec.ExitError

// Registry is installed by the harness.
type Registry interface {
	// LookPath resolves a command name (scheduling point allowed).
	LookPath(name string) (string, error)
	// Run executes the command: stdin in, stdout/stderr out, error as os/exec
	// would report it. It must honour ctx.
	Run(ctx context.Context, path string, args []string, stdin io.Reader) (stdout, stderr []byte, err error)
}

// SignalPolicy is implemented by a Registry whose commands may ignore signals
// other than SIGKILL (a plugin that traps SIGINT, a wrapper whose child lives
// on). Without it every signal terminates the command.
type SignalPolicy interface {
	Ignores(path string, args []string, sig os.Signal) bool
}

// Process mirrors the part of os.Process a Cmd.Cancel function can use.
type Process struct {
	Pid int
	c   *Cmd
}

func (p *Process) Kill() error { return p.Signal(os.Kill) }
func (p *Process) Signal(sig os.Signal) error {
	c := p.c
	if c.exited.Load() {
		return os.ErrProcessDone
	}
	if sig != os.Kill {
		if sp, ok := current().(SignalPolicy); ok && sp.Ignores(c.Path, c.Args[1:], sig) {
			return nil
		}
	}
	c.kill()
	return nil
}

type holder struct{ r Registry }

var cur atomic.Pointer[holder]

func Install(r Registry) { cur.Store(&holder{r}) }
func Uninstall()         { cur.Store(nil) }
func current() Registry {
	if h := cur.Load(); h != nil {
		return h.r
	}
	return nil
}

func LookPath(file string) (string, error) {
	if r := current(); r != nil {
		return r.LookPath(file)
	}
	return exec.LookPath(file)
}

// Cmd mirrors the fields of exec.Cmd that falco uses.
type Cmd struct {
	Path   string
	Args   []string
	Stdin  io.Reader
	Stdout io.Writer
	Stderr io.Writer
	Env    []string
	Dir    string

	// As in os/exec: Cancel is called when the context is done (default: kill
	// the process); WaitDelay bounds the wait for the exit after that (zero:
	// wait for as long as the process lives).
	Cancel    func() error
	WaitDelay time.Duration
	Process   *Process

	ctx    context.Context
	kill   context.CancelFunc
	exited atomic.Bool
}

func Command(name string, arg ...string) *Cmd {
	return CommandContext(context.Background(), name, arg...)
}

func CommandContext(ctx context.Context, name string, arg ...string) *Cmd {
	return &Cmd{Path: name, Args: append([]string{name}, arg...), ctx: ctx}
}

func (c *Cmd) toReal() *exec.Cmd {
	rc := exec.CommandContext(c.ctx, c.Path, c.Args[1:]...)
	rc.Stdin, rc.Stdout, rc.Stderr, rc.Env, rc.Dir = c.Stdin, c.Stdout, c.Stderr, c.Env, c.Dir
	if c.Cancel != nil || c.WaitDelay != 0 {
		panic("simexec: Cmd.Cancel/WaitDelay outside a simulation")
	}
	return rc
}

// run starts the simulated process. The registry's Run sees the life of the
// process as a context: done means it has been killed. With the os/exec
// defaults the command's own context is that life (the process is killed when
// it expires). With a Cancel function or a WaitDelay the two are separate, as
// in os/exec: expiry calls Cancel, which may signal the process — and a
// process that ignores the signal lives on until WaitDelay (if any) kills it.
func (c *Cmd) run(r Registry) (out, errOut []byte, err error) {
	if c.Cancel == nil && c.WaitDelay == 0 {
		return r.Run(c.ctx, c.Path, c.Args[1:], c.Stdin)
	}
	life, kill := context.WithCancel(context.Background())
	c.kill = kill
	c.Process = &Process{Pid: 4242, c: c}
	gone := make(chan struct{})
	go func() {
		select {
		case <-gone:
			return
		case <-c.ctx.Done():
		}
		if c.Cancel != nil {
			c.Cancel() // nolint:errcheck
		} else {
			c.Process.Kill() // nolint:errcheck
		}
		if c.WaitDelay > 0 {
			t := time.NewTimer(c.WaitDelay)
			defer t.Stop()
			select {
			case <-gone:
			case <-t.C:
				kill()
			}
		}
	}()
	out, errOut, err = r.Run(life, c.Path, c.Args[1:], c.Stdin)
	c.exited.Store(true)
	close(gone)
	kill()
	if err != nil && c.ctx.Err() != nil {
		err = c.ctx.Err()
	}
	return out, errOut, err
}

var ErrExit = errors.New("exit status 1")

func (c *Cmd) Output() ([]byte, error) {
	r := current()
	if r == nil {
		return c.toReal().Output()
	}
	out, errOut, err := c.run(r)
	if c.Stderr != nil {
		c.Stderr.Write(errOut)
	}
	return out, err
}

func (c *Cmd) Run() error {
	r := current()
	if r == nil {
		return c.toReal().Run()
	}
	out, errOut, err := c.run(r)
	if c.Stdout != nil {
		c.Stdout.Write(out)
	}
	if c.Stderr != nil {
		c.Stderr.Write(errOut)
	}
	return err
}

func (c *Cmd) CombinedOutput() ([]byte, error) {
	r := current()
	if r == nil {
		return c.toReal().CombinedOutput()
	}
	out, errOut, err := c.run(r)
	var b bytes.Buffer
	b.Write(out)
	b.Write(errOut)
	return b.Bytes(), err
}
