// Package simexec stands in for os/exec in falco's linter package (lint
// plugins). With no registry installed it is os/exec. With one installed,
// LookPath and Cmd.Output consult in-process plugin actors whose fate —
// found or not, exit status, output, latency, hang — is decided by the harness
// from the tape, and whose start/finish are scheduling points.
package simexec

import (
	"bytes"
	"context"
	"errors"
	"io"
	"os/exec"
	"sync/atomic"
)

var ErrNotFound = exec.ErrNotFound

type Error = exec.Error
type ExitError = exec.ExitError

// Registry is installed by the harness.
type Registry interface {
	// LookPath resolves a command name (scheduling point allowed).
	LookPath(name string) (string, error)
	// Run executes the command: stdin in, stdout/stderr out, error as os/exec
	// would report it. It must honour ctx.
	Run(ctx context.Context, path string, args []string, stdin io.Reader) (stdout, stderr []byte, err error)
}

type holder struct{ r Registry }

var cur atomic.Pointer[holder]

func Install(r Registry) { cur.Store(&holder{r}) }
func Uninstall()         { cur.Store(nil) }
func current() Registry {
	if h := cur.Load(); h != nil {
		return h.r
	}
	return nil
}

func LookPath(file string) (string, error) {
	if r := current(); r != nil {
		return r.LookPath(file)
	}
	return exec.LookPath(file)
}

// Cmd mirrors the fields of exec.Cmd that falco uses.
type Cmd struct {
	Path   string
	Args   []string
	Stdin  io.Reader
	Stdout io.Writer
	Stderr io.Writer
	Env    []string
	Dir    string

	ctx  context.Context
	real *exec.Cmd
}

func Command(name string, arg ...string) *Cmd {
	return CommandContext(context.Background(), name, arg...)
}

func CommandContext(ctx context.Context, name string, arg ...string) *Cmd {
	return &Cmd{Path: name, Args: append([]string{name}, arg...), ctx: ctx}
}

func (c *Cmd) toReal() *exec.Cmd {
	rc := exec.CommandContext(c.ctx, c.Path, c.Args[1:]...)
	rc.Stdin, rc.Stdout, rc.Stderr, rc.Env, rc.Dir = c.Stdin, c.Stdout, c.Stderr, c.Env, c.Dir
	return rc
}

var ErrExit = errors.New("exit status 1")

func (c *Cmd) Output() ([]byte, error) {
	r := current()
	if r == nil {
		return c.toReal().Output()
	}
	out, errOut, err := r.Run(c.ctx, c.Path, c.Args[1:], c.Stdin)
	if c.Stderr != nil {
		c.Stderr.Write(errOut)
	}
	return out, err
}

func (c *Cmd) Run() error {
	r := current()
	if r == nil {
		return c.toReal().Run()
	}
	out, errOut, err := r.Run(c.ctx, c.Path, c.Args[1:], c.Stdin)
	if c.Stdout != nil {
		c.Stdout.Write(out)
	}
	if c.Stderr != nil {
		c.Stderr.Write(errOut)
	}
	return err
}

func (c *Cmd) CombinedOutput() ([]byte, error) {
	r := current()
	if r == nil {
		return c.toReal().CombinedOutput()
	}
	out, errOut, err := r.Run(c.ctx, c.Path, c.Args[1:], c.Stdin)
	var b bytes.Buffer
	b.Write(out)
	b.Write(errOut)
	return b.Bytes(), err
}
