// Package simsync stands in for package sync in overlaid falco packages. With
// no scheduler installed it is package sync. With one installed, Mutex and
// RWMutex become cooperative: Lock parks the task at a scheduling point and
// the scheduler decides who gets the lock, so contention never blocks a real
// OS-level mutex inside a synctest bubble (which would hang the bubble).
package simsync

import (
	"sync"
	"sync/atomic"

	"falcosim/sim/simhook"
)

type (
	WaitGroup = sync.WaitGroup
	Map       = sync.Map
	Cond      = sync.Cond
	Locker    = sync.Locker
)

// Pool is a deterministic stand-in for sync.Pool: one LIFO stack, no per-P
// caches, never emptied by the garbage collector. What Get returns is a
// function of the Put/Get history alone, so a case replays; and an object put
// back twice is handed out twice, which is what sync.Pool does as well, only
// not on every run.
type Pool struct {
	New   func() any
	mu    sync.Mutex
	items []any
	known bool
}

var (
	poolsMu sync.Mutex
	pools   []*Pool
)

// ResetPools empties every pool of the overlaid packages. The worker calls it
// before each case: what a pool holds is then a function of the case alone,
// and a case replays in a fresh process.
func ResetPools() {
	poolsMu.Lock()
	ps := append([]*Pool{}, pools...)
	poolsMu.Unlock()
	for _, p := range ps {
		p.mu.Lock()
		for i := range p.items {
			p.items[i] = nil
		}
		p.items = p.items[:0]
		p.mu.Unlock()
	}
}

func (p *Pool) register() {
	if !p.known {
		p.known = true
		poolsMu.Lock()
		pools = append(pools, p)
		poolsMu.Unlock()
	}
}

func (p *Pool) Get() any {
	p.mu.Lock()
	p.register()
	if n := len(p.items); n > 0 {
		x := p.items[n-1]
		p.items[n-1] = nil
		p.items = p.items[:n-1]
		p.mu.Unlock()
		return x
	}
	p.mu.Unlock()
	if p.New != nil {
		return p.New()
	}
	return nil
}

func (p *Pool) Put(x any) {
	if x == nil {
		return
	}
	p.mu.Lock()
	p.register()
	if len(p.items) < 1024 {
		p.items = append(p.items, x)
	}
	p.mu.Unlock()
}

func NewCond(l Locker) *Cond                                   { return sync.NewCond(l) }
func OnceFunc(f func()) func()                                 { return sync.OnceFunc(f) }
func OnceValue[T any](f func() T) func() T                     { return sync.OnceValue(f) }
func OnceValues[T1, T2 any](f func() (T1, T2)) func() (T1, T2) { return sync.OnceValues(f) }

// Once is sync.Once over the cooperative Mutex. sync.Once keeps its internal
// mutex locked while the function runs; a second caller then blocks on a real
// mutex, which a synctest bubble does not count as durably blocked — with the
// first caller parked (on a channel, or by the scheduler) the bubble would
// never become idle and the simulated clock would stop for good.
type Once struct {
	done atomic.Bool
	m    Mutex
}

func (o *Once) Do(f func()) {
	if o.done.Load() {
		return
	}
	o.m.Lock()
	defer o.m.Unlock()
	if !o.done.Load() {
		defer o.done.Store(true)
		f()
	}
}

type Mutex struct {
	mu  sync.Mutex
	sim bool // locked through the scheduler
}

func (m *Mutex) Lock() {
	if s := simhook.Current(); s != nil {
		s.Lock(m, true)
		m.sim = true
		return
	}
	m.mu.Lock()
}

func (m *Mutex) Unlock() {
	if m.sim {
		m.sim = false
		if s := simhook.Current(); s != nil {
			s.Unlock(m, true)
		}
		return
	}
	m.mu.Unlock()
}

func (m *Mutex) TryLock() bool { return m.mu.TryLock() }

type RWMutex struct {
	mu   sync.RWMutex
	simW bool
	simR int
}

func (m *RWMutex) Lock() {
	if s := simhook.Current(); s != nil {
		s.Lock(m, true)
		m.simW = true
		return
	}
	m.mu.Lock()
}

func (m *RWMutex) Unlock() {
	if m.simW {
		m.simW = false
		if s := simhook.Current(); s != nil {
			s.Unlock(m, true)
		}
		return
	}
	m.mu.Unlock()
}

func (m *RWMutex) RLock() {
	if s := simhook.Current(); s != nil {
		s.Lock(m, false)
		m.simR++
		return
	}
	m.mu.RLock()
}

func (m *RWMutex) RUnlock() {
	if m.simR > 0 {
		m.simR--
		if s := simhook.Current(); s != nil {
			s.Unlock(m, false)
		}
		return
	}
	m.mu.RUnlock()
}

func (m *RWMutex) TryLock() bool   { return m.mu.TryLock() }
func (m *RWMutex) TryRLock() bool  { return m.mu.TryRLock() }
func (m *RWMutex) RLocker() Locker { return (*rlocker)(m) }

type rlocker RWMutex

func (r *rlocker) Lock()   { (*RWMutex)(r).RLock() }
func (r *rlocker) Unlock() { (*RWMutex)(r).RUnlock() }
