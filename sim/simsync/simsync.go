// Package simsync stands in for package sync in overlaid falco packages. With
// no scheduler installed it is package sync. With one installed, Mutex and
// RWMutex become cooperative: Lock parks the task at a scheduling point and
// the scheduler decides who gets the lock, so contention never blocks a real
// OS-level mutex inside a synctest bubble (which would hang the bubble).
package simsync

import (
	"sync"

	"falcosim/sim/simhook"
)

type (
	WaitGroup = sync.WaitGroup
	Once      = sync.Once
	Pool      = sync.Pool
	Map       = sync.Map
	Cond      = sync.Cond
	Locker    = sync.Locker
)

func NewCond(l Locker) *Cond                                   { return sync.NewCond(l) }
func OnceFunc(f func()) func()                                 { return sync.OnceFunc(f) }
func OnceValue[T any](f func() T) func() T                     { return sync.OnceValue(f) }
func OnceValues[T1, T2 any](f func() (T1, T2)) func() (T1, T2) { return sync.OnceValues(f) }

type Mutex struct {
	mu  sync.Mutex
	sim bool // locked through the scheduler
}

func (m *Mutex) Lock() {
	if s := simhook.Current(); s != nil {
		s.Lock(m, true)
		m.sim = true
		return
	}
	m.mu.Lock()
}

func (m *Mutex) Unlock() {
	if m.sim {
		m.sim = false
		if s := simhook.Current(); s != nil {
			s.Unlock(m, true)
		}
		return
	}
	m.mu.Unlock()
}

func (m *Mutex) TryLock() bool { return m.mu.TryLock() }

type RWMutex struct {
	mu   sync.RWMutex
	simW bool
	simR int
}

func (m *RWMutex) Lock() {
	if s := simhook.Current(); s != nil {
		s.Lock(m, true)
		m.simW = true
		return
	}
	m.mu.Lock()
}

func (m *RWMutex) Unlock() {
	if m.simW {
		m.simW = false
		if s := simhook.Current(); s != nil {
			s.Unlock(m, true)
		}
		return
	}
	m.mu.Unlock()
}

func (m *RWMutex) RLock() {
	if s := simhook.Current(); s != nil {
		s.Lock(m, false)
		m.simR++
		return
	}
	m.mu.RLock()
}

func (m *RWMutex) RUnlock() {
	if m.simR > 0 {
		m.simR--
		if s := simhook.Current(); s != nil {
			s.Unlock(m, false)
		}
		return
	}
	m.mu.RUnlock()
}

func (m *RWMutex) TryLock() bool   { return m.mu.TryLock() }
func (m *RWMutex) TryRLock() bool  { return m.mu.TryRLock() }
func (m *RWMutex) RLocker() Locker { return (*rlocker)(m) }

type rlocker RWMutex

func (r *rlocker) Lock()   { (*RWMutex)(r).RLock() }
func (r *rlocker) Unlock() { (*RWMutex)(r).RUnlock() }
