// Package astcmp compares falco syntax trees on their semantic projection:
// node kinds, names, operators, literal values, arguments, parameters and
// nested statements. It walks the trees by reflection, so a field added to a
// node is compared by default; what is excluded is listed here, field by
// field, with the reason.
package astcmp

import (
	"fmt"
	"math"
	"reflect"
	"sort"

	"github.com/ysugimoto/falco/v2/ast"
)

// Presentational fields (type name → field name → reason). Everything else
// that is not *ast.Meta or ast.Comments is semantic.
var Presentational = map[string]map[string]string{
	"String": {
		"LongString": "which quoting form was used; the value is the same",
		"Delimiter":  "long-string delimiter spelling",
	},
	"InfixExpression": {
		"Explicit": "explicit `+` versus juxtaposition for the same concatenation",
	},
	"ReturnStatement": {
		"HasParenthesis":              "return(x) versus return x",
		"ParenthesisLeadingComments":  "comments",
		"ParenthesisTrailingComments": "comments",
	},
	"TableProperty": {
		"HasComma": "trailing comma",
	},
	"IfStatement": {
		"Keyword": "spelling of else-if (elseif / elsif / else if)",
	},
}

var (
	metaType     = reflect.TypeOf((*ast.Meta)(nil))
	commentsType = reflect.TypeOf(ast.Comments{})
)

// Diff returns "" when a and b are semantically equal, otherwise the path and
// nature of the first difference.
func Diff(a, b any) string {
	return diff("$", reflect.ValueOf(a), reflect.ValueOf(b))
}

func isNilish(v reflect.Value) bool {
	if !v.IsValid() {
		return true
	}
	switch v.Kind() {
	case reflect.Pointer, reflect.Interface, reflect.Slice, reflect.Map:
		return v.IsNil()
	}
	return false
}

// zeroLeaf reports whether v is a pointer to a literal node carrying its zero
// value (e.g. &ast.Boolean{Value:false}); such a node is equal to an absent one
// only for the fields listed in optionalZero.
var optionalZero = map[string]bool{
	"AclCidr.Inverse": true, // absent "!" ≡ Inverse=false
}

func diff(path string, a, b reflect.Value) string {
	for a.IsValid() && a.Kind() == reflect.Interface && !a.IsNil() {
		a = a.Elem()
	}
	for b.IsValid() && b.Kind() == reflect.Interface && !b.IsNil() {
		b = b.Elem()
	}
	an, bn := isNilish(a), isNilish(b)
	if an && bn {
		return ""
	}
	if an != bn {
		// nil slice ≡ empty slice
		if !an && a.Kind() == reflect.Slice && a.Len() == 0 {
			return ""
		}
		if !bn && b.Kind() == reflect.Slice && b.Len() == 0 {
			return ""
		}
		return fmt.Sprintf("%s: one side absent (%s vs %s)", path, describe(a), describe(b))
	}
	if a.Type() != b.Type() {
		return fmt.Sprintf("%s: kind %s vs %s", path, a.Type(), b.Type())
	}
	switch a.Kind() {
	case reflect.Pointer:
		return diff(path, a.Elem(), b.Elem())
	case reflect.Struct:
		tn := a.Type().Name()
		for i := 0; i < a.NumField(); i++ {
			f := a.Type().Field(i)
			if f.Type == metaType || f.Type == commentsType {
				continue
			}
			if _, skip := Presentational[tn][f.Name]; skip {
				continue
			}
			fa, fb := a.Field(i), b.Field(i)
			if optionalZero[tn+"."+f.Name] {
				if isNilish(fa) != isNilish(fb) {
					nz := fa
					if isNilish(fa) {
						nz = fb
					}
					if nz.Elem().FieldByName("Value").IsZero() {
						continue
					}
				}
			}
			if d := diff(path+"."+tn+"."+f.Name, fa, fb); d != "" {
				return d
			}
		}
		return ""
	case reflect.Slice:
		if a.Len() != b.Len() {
			return fmt.Sprintf("%s: length %d vs %d", path, a.Len(), b.Len())
		}
		for i := 0; i < a.Len(); i++ {
			if d := diff(fmt.Sprintf("%s[%d]", path, i), a.Index(i), b.Index(i)); d != "" {
				return d
			}
		}
		return ""
	case reflect.Map:
		if a.Len() != b.Len() {
			return fmt.Sprintf("%s: %d keys vs %d", path, a.Len(), b.Len())
		}
		keys := a.MapKeys()
		sort.Slice(keys, func(i, j int) bool { return fmt.Sprint(keys[i].Interface()) < fmt.Sprint(keys[j].Interface()) })
		for _, k := range keys {
			bv := b.MapIndex(k)
			if !bv.IsValid() {
				return fmt.Sprintf("%s: key %v only on one side", path, k.Interface())
			}
			if d := diff(fmt.Sprintf("%s[%v]", path, k.Interface()), a.MapIndex(k), bv); d != "" {
				return d
			}
		}
		return ""
	case reflect.Float64, reflect.Float32:
		x, y := a.Float(), b.Float()
		if x == y || (math.IsNaN(x) && math.IsNaN(y)) {
			return ""
		}
		return fmt.Sprintf("%s: %v vs %v", path, x, y)
	case reflect.String:
		if a.String() != b.String() {
			return fmt.Sprintf("%s: %s vs %s", path, clip(a.String()), clip(b.String()))
		}
		return ""
	case reflect.Bool:
		if a.Bool() != b.Bool() {
			return fmt.Sprintf("%s: %v vs %v", path, a.Bool(), b.Bool())
		}
		return ""
	case reflect.Int, reflect.Int64, reflect.Int32, reflect.Int16, reflect.Int8:
		if a.Int() != b.Int() {
			return fmt.Sprintf("%s: %d vs %d", path, a.Int(), b.Int())
		}
		return ""
	case reflect.Uint, reflect.Uint64, reflect.Uint32, reflect.Uint16, reflect.Uint8:
		if a.Uint() != b.Uint() {
			return fmt.Sprintf("%s: %d vs %d", path, a.Uint(), b.Uint())
		}
		return ""
	default:
		if !reflect.DeepEqual(a.Interface(), b.Interface()) {
			return fmt.Sprintf("%s: values differ", path)
		}
		return ""
	}
}

func clip(s string) string {
	if len(s) > 40 {
		return fmt.Sprintf("%q…(len %d)", s[:40], len(s))
	}
	return fmt.Sprintf("%q", s)
}

func describe(v reflect.Value) string {
	if isNilish(v) {
		return "absent"
	}
	for v.Kind() == reflect.Pointer || v.Kind() == reflect.Interface {
		v = v.Elem()
	}
	if v.Kind() == reflect.Struct {
		if f := v.FieldByName("Value"); f.IsValid() {
			return fmt.Sprintf("%s(%v)", v.Type().Name(), clipAny(f.Interface()))
		}
		return v.Type().Name()
	}
	return v.Type().String()
}

func clipAny(x any) string {
	s := fmt.Sprint(x)
	if len(s) > 30 {
		return s[:30] + "…"
	}
	return s
}

// Kinds returns the multiset of node kinds of a tree as a sorted signature,
// and the kind of the first difference's node for finding keys.
func Kinds(x any) map[string]int {
	m := map[string]int{}
	kinds(reflect.ValueOf(x), m)
	return m
}

func kinds(v reflect.Value, m map[string]int) {
	for v.IsValid() && (v.Kind() == reflect.Interface || v.Kind() == reflect.Pointer) {
		if v.IsNil() {
			return
		}
		v = v.Elem()
	}
	if !v.IsValid() {
		return
	}
	switch v.Kind() {
	case reflect.Struct:
		if v.Type().PkgPath() == metaType.Elem().PkgPath() && v.Type() != metaType.Elem() {
			m[v.Type().Name()]++
		}
		for i := 0; i < v.NumField(); i++ {
			f := v.Type().Field(i)
			if f.Type == metaType || f.Type == commentsType {
				continue
			}
			kinds(v.Field(i), m)
		}
	case reflect.Slice:
		for i := 0; i < v.Len(); i++ {
			kinds(v.Index(i), m)
		}
	}
}
