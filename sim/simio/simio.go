// Package simio is the simulated byte stream: the io.Reader handed to falco's
// lexer, codec decoder, plugin request reader and Terraform stdin parser.
// Chunking, zero-length reads, stalls (in fake time), early EOF, errors at an
// offset and byte corruption are all tape decisions.
package simio

import (
	"errors"
	"fmt"
	"io"
	"time"

	"falcosim/sim/tape"
)

var ErrInjected = errors.New("simio: injected read error")

// SpinSentinel is the panic value raised when a consumer keeps calling Read
// more than SpinLimit times after the terminal event was already reported: a
// loop without an EOF exit. The harness recovers it and classifies it.
var SpinSentinel = errors.New("simio: consumer spins after end of stream")

// WouldBlock is the panic value raised by a reader whose plan ends "open"
// (the peer keeps the stream open after its message) when the consumer asks
// for more bytes than the message holds: on a real pipe that Read never
// returns.
var WouldBlock = errors.New("simio: consumer reads past the end of the message on an open stream (it would block forever)")

// Plan describes how data is delivered.
type Plan struct {
	Chunk    string // "all" | "1" | "2" | "3" | "7" | "half" | "4095" | "4096" | "4097" | "rand"
	Zeros    bool   // up to two consecutive (0,nil) reads now and then
	Terminal string // "eof" | "cut" | "err" | "unexpected" | "open" (no end: a read past the data would block)
	CutAt    int    // for cut/err/unexpected: bytes delivered before the terminal event
	Stall    time.Duration
	StallAt  int
}

func (p Plan) String() string {
	s := fmt.Sprintf("chunk=%s term=%s", p.Chunk, p.Terminal)
	if p.Terminal != "eof" {
		s += fmt.Sprintf("@%d", p.CutAt)
	}
	if p.Zeros {
		s += " zeros"
	}
	if p.Stall > 0 {
		s += fmt.Sprintf(" stall=%v@%d", p.Stall, p.StallAt)
	}
	return s
}

// Trivial reports whether the plan is "everything at once, clean EOF".
func (p Plan) Trivial() bool {
	return p.Chunk == "all" && p.Terminal == "eof" && !p.Zeros && p.Stall == 0
}

var chunkKinds = []string{"all", "1", "2", "3", "7", "half", "4095", "4096", "4097", "rand"}

// DrawPlan draws a delivery plan for n bytes. faults=false yields clean EOF.
func DrawPlan(t *tape.Tape, n int, faults bool) Plan {
	p := Plan{Chunk: chunkKinds[t.Draw(len(chunkKinds))], Terminal: "eof"}
	p.Zeros = t.Bool(1, 4)
	if faults {
		switch t.Draw(4) {
		case 1:
			p.Terminal = "cut"
		case 2:
			p.Terminal = "err"
		case 3:
			p.Terminal = "unexpected"
		}
		if p.Terminal != "eof" {
			p.CutAt = t.Draw(n + 1)
		}
	}
	return p
}

// Reader delivers data according to a plan. Per-read randomness (chunk sizes
// for "rand", zero reads) is drawn from the tape at read time.
type Reader struct {
	data  []byte
	off   int
	plan  Plan
	t     *tape.Tape
	zeros int
	// Stats
	Reads      int
	AfterEnd   int // reads issued after the terminal event was reported
	ended      bool
	ShortReads int
	stalled    bool
	SpinLimit  int // 0: unlimited
}

func NewReader(data []byte, plan Plan, t *tape.Tape) *Reader {
	if plan.Terminal != "eof" && plan.Terminal != "open" && plan.CutAt < len(data) {
		data = data[:plan.CutAt]
	}
	return &Reader{data: data, plan: plan, t: t}
}

// Delivered is the byte string the consumer can have seen.
func (r *Reader) Delivered() []byte { return r.data }

func (r *Reader) terminalErr() error {
	switch r.plan.Terminal {
	case "err":
		return ErrInjected
	case "unexpected":
		return io.ErrUnexpectedEOF
	}
	return io.EOF
}

func (r *Reader) Read(p []byte) (int, error) {
	r.Reads++
	if r.ended {
		r.AfterEnd++
		if r.SpinLimit > 0 && r.AfterEnd > r.SpinLimit {
			panic(SpinSentinel)
		}
		return 0, r.terminalErr()
	}
	if len(p) == 0 {
		return 0, nil
	}
	if r.off >= len(r.data) {
		if r.plan.Terminal == "open" {
			panic(WouldBlock)
		}
		r.ended = true
		return 0, r.terminalErr()
	}
	if r.plan.Stall > 0 && !r.stalled && r.off >= r.plan.StallAt {
		r.stalled = true
		time.Sleep(r.plan.Stall) // fake time inside a synctest bubble
	}
	if r.plan.Zeros && r.zeros < 2 && r.t.Bool(1, 8) {
		r.zeros++
		return 0, nil
	}
	r.zeros = 0
	n := len(p)
	switch r.plan.Chunk {
	case "all":
	case "half":
		if n > 1 {
			n = (n + 1) / 2
		}
	case "rand":
		n = 1 + r.t.Draw(n)
	default:
		var c int
		fmt.Sscanf(r.plan.Chunk, "%d", &c)
		if c > 0 && c < n {
			n = c
		}
	}
	if rem := len(r.data) - r.off; n > rem {
		n = rem
	}
	if n < len(p) && r.off+n < len(r.data) {
		r.ShortReads++
	}
	copy(p, r.data[r.off:r.off+n])
	r.off += n
	return n, nil
}

// Corrupt applies one tape-chosen byte-level corruption and names it.
func Corrupt(t *tape.Tape, b []byte) ([]byte, string) {
	out := append([]byte{}, b...)
	if len(out) == 0 {
		return out, "none(empty)"
	}
	pos := t.Draw(len(out))
	switch t.Draw(7) {
	case 0:
		bit := t.Draw(8)
		out[pos] ^= 1 << bit
		return out, fmt.Sprintf("flip@%d.%d", pos, bit)
	case 1:
		v := byte(t.Draw(256))
		out[pos] = v
		return out, fmt.Sprintf("replace@%d=%#x", pos, v)
	case 2:
		v := byte(t.Draw(256))
		out = append(out[:pos], append([]byte{v}, out[pos:]...)...)
		return out, fmt.Sprintf("insert@%d=%#x", pos, v)
	case 3:
		out = append(out[:pos], out[pos+1:]...)
		return out, fmt.Sprintf("delete@%d", pos)
	case 4:
		out[pos] = 0
		return out, fmt.Sprintf("nul@%d", pos)
	case 5:
		bad := [][]byte{{0xff}, {0xc0, 0x80}, {0xed, 0xa0, 0x80}, {0xf8}}[t.Draw(4)]
		out = append(out[:pos], append(append([]byte{}, bad...), out[pos:]...)...)
		return out, fmt.Sprintf("badutf8@%d", pos)
	default:
		end := pos + 1 + t.Draw(16)
		if end > len(out) {
			end = len(out)
		}
		out = append(out[:pos], out[end:]...)
		return out, fmt.Sprintf("drop@%d+%d", pos, end-pos)
	}
}
