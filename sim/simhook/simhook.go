// Package simhook is the rendezvous between code under test (rewritten by the
// source overlay to call Yield / Go / WrapGo) and whatever the harness has
// installed for the current case. With nothing installed every function is a
// no-op or a plain pass-through, so overlaid code behaves as shipped.
package simhook

import (
	"runtime"
	"strings"
	"sync/atomic"
)

// Scheduler is what a harness installs to own interleavings.
type Scheduler interface {
	// Yield is a scheduling point inside code under test.
	Yield(name string)
	// Register adds a task that is parked at birth (in program order, by the
	// spawner) and returns the function the new goroutine must call first: it
	// blocks until the scheduler releases the task.
	Register(label string) (wait func())
	// Lock / Unlock implement cooperative mutual exclusion on obj.
	Lock(obj any, write bool)
	Unlock(obj any, write bool)
}

type holder struct{ s Scheduler }

var cur atomic.Pointer[holder]
var yieldHook atomic.Pointer[func(string)]

func Install(s Scheduler) { cur.Store(&holder{s}) }
func Uninstall()          { cur.Store(nil) }
func Current() Scheduler {
	if h := cur.Load(); h != nil {
		return h.s
	}
	return nil
}

// InstallYield installs a plain callback for Yield (step counting) when no
// scheduler is wanted.
func InstallYield(f func(string)) { yieldHook.Store(&f) }
func UninstallYield()             { yieldHook.Store(nil) }

// Yield is inserted by the overlay at the entry of selected functions.
func Yield(name string) {
	if f := yieldHook.Load(); f != nil {
		(*f)(name)
	}
	if s := Current(); s != nil {
		s.Yield(name)
	}
}

// ---- preemption inside loops ---------------------------------------------------
//
// The overlay puts Loop() at the top of every loop body of selected packages
// (lexer, parser, ast/codec, snippet). With loop preemption off — the default —
// it costs one atomic load. A harness that wants tasks to be preempted in the
// middle of such code turns it on for a case: every n-th loop iteration is then
// a scheduling point.
var loopEvery, loopCount atomic.Int64

func SetLoopEvery(n int) { loopEvery.Store(int64(n)); loopCount.Store(0) }

func Loop() {
	n := loopEvery.Load()
	if n == 0 {
		return
	}
	if loopCount.Add(1)%n != 0 {
		return
	}
	if s := Current(); s != nil {
		s.Yield("loop")
	}
}

// Register is called by the spawner right before a `go` statement the overlay
// rewrote; the returned function is the first thing the new goroutine calls.
func Register() func() {
	if s := Current(); s != nil {
		return s.Register("go")
	}
	return func() {}
}

// WrapErr wraps the argument of errgroup.Group.Go. The task is registered
// here, by the spawner and therefore in program order; the goroutine the
// errgroup starts waits for the scheduler to release it.
func WrapErr(fn func() error) func() error {
	s := Current()
	if s == nil {
		return fn
	}
	wait := s.Register("errgroup")
	return func() error {
		defer Recover()
		wait()
		return fn()
	}
}

// ---- panics on goroutines started by code under test -------------------------

var panicHook atomic.Pointer[func(v any, where string)]

// InstallPanicHook makes Recover report panics instead of letting them kill
// the process (a panic on a goroutine falco started cannot be recovered by
// the harness in any other way).
func InstallPanicHook(f func(v any, where string)) { panicHook.Store(&f) }
func UninstallPanicHook()                          { panicHook.Store(nil) }

// Recover is deferred first thing in goroutines the overlay rewrote.
func Recover() {
	h := panicHook.Load()
	if h == nil {
		return // not recovering: the panic continues as shipped
	}
	if v := recover(); v != nil {
		(*h)(v, innermost())
	}
}

func innermost() string {
	pcs := make([]uintptr, 64)
	n := runtime.Callers(3, pcs)
	frames := runtime.CallersFrames(pcs[:n])
	for {
		f, more := frames.Next()
		if i := strings.Index(f.Function, "falco/v2/"); i >= 0 {
			return f.Function[i+len("falco/v2/"):]
		}
		if !more {
			break
		}
	}
	return "?"
}
