// Package simmap owns Go's map iteration order at the `range` sites the
// overlay rewrites: keys are sorted (by their printed form), then permuted by
// whatever the harness installed — so the "random" order is a tape decision.
// With nothing installed the native order is used.
package simmap

import (
	"fmt"
	"iter"
	"sort"
	"sync/atomic"
)

// Order returns a permutation of 0..n-1 for a map with n keys.
type Order func(n int) []int

var cur atomic.Pointer[Order]

// Sites counts iterations per number of keys ≥ 2 (reach probe).
var Multi atomic.Int64

func Install(o Order) { cur.Store(&o) }
func Uninstall()      { cur.Store(nil) }

func All[M ~map[K]V, K comparable, V any](m M) iter.Seq2[K, V] {
	return func(yield func(K, V) bool) {
		o := cur.Load()
		if o == nil {
			for k, v := range m {
				if !yield(k, v) {
					return
				}
			}
			return
		}
		type kv struct {
			k K
			s string
		}
		keys := make([]kv, 0, len(m))
		for k := range m {
			keys = append(keys, kv{k, fmt.Sprint(k)})
		}
		sort.Slice(keys, func(i, j int) bool { return keys[i].s < keys[j].s })
		if len(keys) >= 2 {
			Multi.Add(1)
		}
		perm := (*o)(len(keys))
		for _, i := range perm {
			k := keys[i].k
			v, ok := m[k]
			if !ok {
				continue // deleted during iteration: not produced, as the spec requires
			}
			if !yield(k, v) {
				return
			}
		}
	}
}
