package simnet

import (
	"bytes"
	"encoding/json"
	"fmt"
	"io"
	"net/http"
	"strings"
	"sync"
	"time"

	"falcosim/sim/sched"
)

// ---- resource set ---------------------------------------------------------------

type DictItem struct{ Key, Value string }
type Dict struct {
	ID, Name  string
	WriteOnly bool
	Items     []DictItem
}
type AclEntry struct {
	IP      string
	Negated bool
	Subnet  *int64
	Comment string
}
type Acl struct {
	ID, Name string
	Entries  []AclEntry
}
type Backend struct {
	Name, Address, Shield string
}
type Director struct {
	Name     string
	Type     int
	Backends []string
	Quorum   int
	Retries  int
}
type Snippet struct {
	ID, Name, Type, Content string
	Priority                int
	Dynamic                 bool
}
type Resources struct {
	Dicts     []Dict
	Acls      []Acl
	Backends  []Backend
	Directors []Director
	Snippets  []Snippet
	ForceSSL  bool
}

// ---- Fastly API ------------------------------------------------------------------

// APIFault is what happens to one API round trip.
type APIFault struct {
	Kind    string // ok | status | cut-json | stall | connect-error | html | slow
	Status  int
	Latency time.Duration
	CutAt   int
}

type APITrip struct {
	N     int
	Path  string
	Fault string
}

// FastlyAPI serves a Resources value the way api.fastly.com does for the
// endpoints falco calls. Latency, completion order (through the scheduler)
// and faults are decided per round trip by Decide.
type FastlyAPI struct {
	Res     *Resources
	Service string
	Version int
	S       *sched.Sched
	Decide  func(path string, n int) APIFault

	mu    sync.Mutex
	Trips []APITrip
	Fired map[string]int
}

func NewFastlyAPI(res *Resources, decide func(path string, n int) APIFault) *FastlyAPI {
	return &FastlyAPI{Res: res, Service: "SID", Version: 7, Decide: decide, Fired: map[string]int{}}
}

func b2s(b bool) string {
	if b {
		return "1"
	}
	return "0"
}

func (a *FastlyAPI) body(path string) (any, bool) {
	vp := fmt.Sprintf("/service/%s/version/%d/", a.Service, a.Version)
	sp := fmt.Sprintf("/service/%s/", a.Service)
	switch {
	case path == fmt.Sprintf("/service/%s/version/active", a.Service):
		return map[string]any{"number": a.Version, "active": true}, true
	case path == vp+"dictionary":
		out := []any{}
		for _, d := range a.Res.Dicts {
			out = append(out, map[string]any{"id": d.ID, "name": d.Name, "write_only": d.WriteOnly})
		}
		return out, true
	case path == vp+"acl":
		out := []any{}
		for _, x := range a.Res.Acls {
			out = append(out, map[string]any{"id": x.ID, "name": x.Name})
		}
		return out, true
	case path == vp+"backend":
		out := []any{}
		for _, b := range a.Res.Backends {
			m := map[string]any{"name": b.Name, "address": b.Address}
			if b.Shield != "" {
				m["shield"] = b.Shield
			} else {
				m["shield"] = nil
			}
			out = append(out, m)
		}
		return out, true
	case path == vp+"director":
		out := []any{}
		for _, d := range a.Res.Directors {
			bs := d.Backends
			if bs == nil {
				bs = []string{}
			}
			out = append(out, map[string]any{"name": d.Name, "type": d.Type, "backends": bs, "retries": d.Retries, "quorum": d.Quorum})
		}
		return out, true
	case path == vp+"snippet":
		out := []any{}
		for _, s := range a.Res.Snippets {
			m := map[string]any{"id": s.ID, "name": s.Name, "dynamic": b2s(s.Dynamic), "type": s.Type, "priority": fmt.Sprint(s.Priority)}
			if s.Dynamic {
				m["content"] = nil
			} else {
				m["content"] = s.Content
			}
			out = append(out, m)
		}
		return out, true
	case path == vp+"condition", path == vp+"header", path == vp+"response_object":
		return []any{}, true
	case path == vp+"request_settings":
		if a.Res.ForceSSL {
			return []any{map[string]any{"force_ssl": "1"}}, true
		}
		return []any{}, true
	case strings.HasPrefix(path, sp+"dictionary/") && strings.HasSuffix(path, "/items"):
		id := strings.TrimSuffix(strings.TrimPrefix(path, sp+"dictionary/"), "/items")
		for _, d := range a.Res.Dicts {
			if d.ID == id {
				out := []any{}
				for _, it := range d.Items {
					out = append(out, map[string]any{"item_key": it.Key, "item_value": it.Value, "dictionary_id": id})
				}
				return out, true
			}
		}
	case strings.HasPrefix(path, sp+"acl/") && strings.HasSuffix(path, "/entries"):
		id := strings.TrimSuffix(strings.TrimPrefix(path, sp+"acl/"), "/entries")
		for _, x := range a.Res.Acls {
			if x.ID == id {
				out := []any{}
				for _, e := range x.Entries {
					m := map[string]any{"ip": e.IP, "negated": b2s(e.Negated), "comment": e.Comment, "acl_id": id}
					if e.Subnet != nil {
						m["subnet"] = *e.Subnet
					} else {
						m["subnet"] = nil
					}
					out = append(out, m)
				}
				return out, true
			}
		}
	case strings.HasPrefix(path, sp+"snippet/"):
		id := strings.TrimPrefix(path, sp+"snippet/")
		for _, s := range a.Res.Snippets {
			if s.ID == id {
				return map[string]any{"snippet_id": id, "content": s.Content}, true
			}
		}
	case strings.Contains(path, "/logging/"):
		return []any{}, true
	}
	return nil, false
}

func (a *FastlyAPI) RoundTrip(req *http.Request) (*http.Response, error) {
	path := req.URL.Path
	a.mu.Lock()
	n := len(a.Trips)
	a.Trips = append(a.Trips, APITrip{N: n, Path: path})
	a.mu.Unlock()
	if a.S != nil {
		a.S.Point("api-send", path)
	}
	f := a.Decide(path, n)
	a.mu.Lock()
	a.Trips[n].Fault = f.Kind
	a.Fired[f.Kind]++
	a.mu.Unlock()
	wait := func(d time.Duration) bool {
		if d <= 0 {
			return true
		}
		if a.S != nil {
			return a.S.SleepOr("api-latency", path, d, req.Context().Done())
		}
		t := time.NewTimer(d)
		defer t.Stop()
		select {
		case <-t.C:
			return true
		case <-req.Context().Done():
			return false
		}
	}
	if !wait(f.Latency) {
		return nil, req.Context().Err()
	}
	mk := func(status int, ctype string, body io.ReadCloser) *http.Response {
		return &http.Response{StatusCode: status, Status: fmt.Sprintf("%d %s", status, http.StatusText(status)), Proto: "HTTP/1.1", ProtoMajor: 1, ProtoMinor: 1,
			Header: http.Header{"Content-Type": {ctype}}, Body: body, ContentLength: -1, Request: req}
	}
	switch f.Kind {
	case "connect-error":
		return nil, ErrConnRefused
	case "status":
		return mk(f.Status, "application/json", io.NopCloser(strings.NewReader(`{"msg":"error","detail":"simulated"}`))), nil
	case "html":
		return mk(200, "text/html", io.NopCloser(strings.NewReader("<html><body>Service Unavailable</body></html>"))), nil
	}
	v, ok := a.body(path)
	if !ok {
		return mk(404, "application/json", io.NopCloser(strings.NewReader(`{"msg":"Record not found"}`))), nil
	}
	b, _ := json.Marshal(v)
	switch f.Kind {
	case "cut-json":
		k := f.CutAt % (len(b) + 1)
		if k == len(b) && len(b) > 0 {
			k = len(b) - 1
		}
		return mk(200, "application/json", &faultyBody{data: b[:k], ctx: req}), nil
	case "stall":
		k := f.CutAt % (len(b) + 1)
		return mk(200, "application/json", &faultyBody{data: b[:k], stall: true, ctx: req}), nil
	}
	return mk(200, "application/json", io.NopCloser(bytes.NewReader(b))), nil
}
