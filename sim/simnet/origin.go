// Package simnet holds the simulated peers on the network: origin servers
// behind falco's backends and the Fastly API. Both are http.RoundTrippers the
// harness installs in http.DefaultTransport (the variable falco's plain-http
// backend path and the Fastly API client both go through); behaviour, latency
// and faults are decided by the harness from the tape, per round trip.
package simnet

import (
	"bufio"
	"bytes"
	"errors"
	"fmt"
	"io"
	"net"
	"net/http"
	"sync"
	"time"

	"falcosim/sim/sched"
)

var ErrConnRefused = errors.New("simnet: connection refused")
var ErrDNS = errors.New("simnet: no such host")
var ErrBody = errors.New("simnet: connection reset while reading body")

// TripBudget is the panic value raised when one origin sees more round trips
// than MaxTrips: a fetch loop that never ends.
var TripBudget = errors.New("simnet: round-trip budget exceeded")

// Behaviour of the origin for one round trip.
type Behaviour struct {
	Kind         string // for logs/probes: ok | connect-error | dns-error | hang | slow | body-error | body-stall | status | self-loop
	Latency      time.Duration
	Err          error
	Hang         bool // never answer; return when the request context ends
	Status       int
	Header       http.Header
	Body         []byte
	BodyErrAfter int          // >=0: the body fails after that many bytes
	BodyStall    bool         // with BodyErrAfter: stall (until ctx ends) instead of failing
	Announce     *int64       // Content-Length the origin announces (nil: none, chunked); it may lie
	Loop         http.Handler // forward into this handler (self-loop) and relay its response
	LoopHeaders  http.Header  // extra headers on the forwarded request
}

type Trip struct {
	N      int
	Method string
	URL    string
	Header http.Header
	Kind   string
	At     time.Time
	Done   time.Time // when the round trip returned
	Result string
}

type Origin struct {
	Behave   func(req *http.Request, n int) Behaviour
	S        *sched.Sched // nil: plain fake-time sleeps
	MaxTrips int

	mu    sync.Mutex
	Trips []Trip
	Fired map[string]int
}

func NewOrigin(behave func(req *http.Request, n int) Behaviour) *Origin {
	return &Origin{Behave: behave, MaxTrips: 200, Fired: map[string]int{}}
}

func (o *Origin) Count() int {
	o.mu.Lock()
	defer o.mu.Unlock()
	return len(o.Trips)
}

func (o *Origin) sleep(req *http.Request, label string, d time.Duration) bool {
	if d <= 0 {
		return true
	}
	if o.S != nil {
		return o.S.SleepOr("net-latency", label, d, req.Context().Done())
	}
	t := time.NewTimer(d)
	defer t.Stop()
	select {
	case <-t.C:
		return true
	case <-req.Context().Done():
		return false
	}
}

func (o *Origin) RoundTrip(req *http.Request) (*http.Response, error) {
	o.mu.Lock()
	n := len(o.Trips)
	if n >= o.MaxTrips {
		o.mu.Unlock()
		panic(TripBudget)
	}
	label := req.Method + " " + req.URL.String()
	o.Trips = append(o.Trips, Trip{N: n, Method: req.Method, URL: req.URL.String(), Header: req.Header.Clone(), At: time.Now()})
	o.mu.Unlock()
	if o.S != nil {
		o.S.Point("net-send", label)
	}
	b := o.Behave(req, n)
	o.mu.Lock()
	o.Trips[n].Kind = b.Kind
	o.Fired[b.Kind]++
	o.mu.Unlock()
	setResult := func(r string) {
		o.mu.Lock()
		o.Trips[n].Result = r
		o.Trips[n].Done = time.Now()
		o.mu.Unlock()
	}
	if req.Body != nil {
		io.Copy(io.Discard, req.Body)
		req.Body.Close()
	}
	if b.Hang {
		<-req.Context().Done()
		setResult("ctx:" + req.Context().Err().Error())
		return nil, req.Context().Err()
	}
	if !o.sleep(req, label, b.Latency) {
		setResult("ctx:" + req.Context().Err().Error())
		return nil, req.Context().Err()
	}
	if b.Err != nil {
		setResult("err:" + b.Err.Error())
		return nil, b.Err
	}
	if b.Loop != nil {
		rec := newRecorder()
		fr := req.Clone(req.Context())
		fr.RequestURI = req.URL.RequestURI()
		for k, v := range b.LoopHeaders {
			fr.Header[k] = v
		}
		b.Loop.ServeHTTP(rec, fr)
		setResult(fmt.Sprintf("loop:%d", rec.code))
		return &http.Response{StatusCode: rec.code, Status: http.StatusText(rec.code), Proto: "HTTP/1.1", ProtoMajor: 1, ProtoMinor: 1,
			Header: rec.h, Body: io.NopCloser(bytes.NewReader(rec.b.Bytes())), ContentLength: int64(rec.b.Len()), Request: req}, nil
	}
	status := b.Status
	if status == 0 {
		status = 200
	}
	h := b.Header
	if h == nil {
		h = http.Header{}
	}
	var body io.ReadCloser = io.NopCloser(bytes.NewReader(b.Body))
	if b.BodyErrAfter >= 0 {
		k := b.BodyErrAfter
		if k > len(b.Body) {
			k = len(b.Body)
		}
		body = &faultyBody{data: b.Body[:k], stall: b.BodyStall, ctx: req}
	}
	setResult(fmt.Sprintf("status:%d", status))
	cl := int64(-1)
	if b.Announce != nil {
		// what net/http hands over for an announced length: the header, the
		// parsed field, and a body that ends at the announced length or fails
		// with an unexpected EOF when the peer sent less
		cl = *b.Announce
		h = h.Clone()
		h.Set("Content-Length", fmt.Sprint(cl))
		if b.BodyErrAfter < 0 {
			switch {
			case cl < int64(len(b.Body)):
				body = io.NopCloser(bytes.NewReader(b.Body[:cl]))
			case cl > int64(len(b.Body)):
				body = &faultyBody{data: b.Body, ctx: req, err: io.ErrUnexpectedEOF}
			}
		}
	}
	return &http.Response{StatusCode: status, Status: fmt.Sprintf("%d %s", status, http.StatusText(status)), Proto: "HTTP/1.1", ProtoMajor: 1, ProtoMinor: 1,
		Header: h, Body: body, ContentLength: cl, Request: req}, nil
}

type faultyBody struct {
	data  []byte
	off   int
	stall bool
	ctx   *http.Request
	err   error // nil: ErrBody
}

func (f *faultyBody) Read(p []byte) (int, error) {
	if f.off < len(f.data) {
		n := copy(p, f.data[f.off:])
		f.off += n
		return n, nil
	}
	if f.stall {
		<-f.ctx.Context().Done()
		return 0, f.ctx.Context().Err()
	}
	if f.err != nil {
		return 0, f.err
	}
	return 0, ErrBody
}
func (f *faultyBody) Close() error { return nil }

type recorder struct {
	h     http.Header
	b     bytes.Buffer
	code  int
	wrote bool
}

func newRecorder() *recorder            { return &recorder{h: http.Header{}, code: 200} }
func (r *recorder) Header() http.Header { return r.h }
func (r *recorder) WriteHeader(c int) {
	if !r.wrote {
		r.code, r.wrote = c, true
	}
}
func (r *recorder) Write(p []byte) (int, error) {
	r.wrote = true
	return r.b.Write(p)
}

// Recorder is a minimal http.ResponseWriter for driving handlers directly.
type Recorder = recorder

func NewRecorder() *Recorder     { return newRecorder() }
func (r *recorder) Code() int    { return r.code }
func (r *recorder) Body() []byte { return r.b.Bytes() }
func (r *recorder) Wrote() bool  { return r.wrote }

// HijackRecorder is a ResponseWriter whose connection can be taken over
// (http.Hijacker), as falco's proxy-response mode does. What the handler
// writes to the connection, and whether and when it closed it, is recorded.
type HijackRecorder struct {
	recorder
	Hijacked bool
	conn     *recConn
}

func NewHijackRecorder() *HijackRecorder {
	return &HijackRecorder{recorder: *newRecorder()}
}

func (h *HijackRecorder) Hijack() (net.Conn, *bufio.ReadWriter, error) {
	h.Hijacked = true
	h.conn = &recConn{}
	return h.conn, bufio.NewReadWriter(bufio.NewReader(h.conn), bufio.NewWriter(h.conn)), nil
}

// Closed reports whether the handler closed the taken-over connection.
func (h *HijackRecorder) Closed() bool { return h.conn != nil && h.conn.isClosed() }

// Wire is what was written to the taken-over connection so far.
func (h *HijackRecorder) Wire() []byte {
	if h.conn == nil {
		return nil
	}
	h.conn.mu.Lock()
	defer h.conn.mu.Unlock()
	return append([]byte{}, h.conn.b.Bytes()...)
}

type recConn struct {
	mu     sync.Mutex
	b      bytes.Buffer
	closed bool
}

func (c *recConn) isClosed() bool             { c.mu.Lock(); defer c.mu.Unlock(); return c.closed }
func (c *recConn) Read(p []byte) (int, error) { return 0, io.EOF }
func (c *recConn) Write(p []byte) (int, error) {
	c.mu.Lock()
	defer c.mu.Unlock()
	if c.closed {
		return 0, net.ErrClosed
	}
	return c.b.Write(p)
}
func (c *recConn) Close() error                       { c.mu.Lock(); c.closed = true; c.mu.Unlock(); return nil }
func (c *recConn) LocalAddr() net.Addr                { return &net.TCPAddr{IP: net.IPv4(192, 0, 2, 1), Port: 80} }
func (c *recConn) RemoteAddr() net.Addr               { return &net.TCPAddr{IP: net.IPv4(192, 0, 2, 10), Port: 4000} }
func (c *recConn) SetDeadline(t time.Time) error      { return nil }
func (c *recConn) SetReadDeadline(t time.Time) error  { return nil }
func (c *recConn) SetWriteDeadline(t time.Time) error { return nil }
