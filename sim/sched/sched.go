// Package sched is the seeded scheduler of the simulation: tasks park at
// scheduling points (request admission, cooperative locks, simulated network
// and process round trips, yields inserted by the overlay); the scheduler
// waits for quiescence (synctest.Wait), then releases exactly one enabled
// parked task chosen by the tape. Because only one task runs between two
// decisions, every park is registered in a deterministic order and one tape
// is one exactly repeatable interleaving.
//
// The scheduler also owns simulated waits (latencies): a timed park becomes
// enabled when the fake clock reaches its wake time, and the scheduler itself
// advances the clock when nothing else is enabled. It advances the clock by
// one microsecond at every decision so that timers created by different tasks
// never fall on the same instant.
package sched

import (
	"fmt"
	"hash/fnv"
	"sort"
	"sync"
	"testing/synctest"
	"time"

	"falcosim/sim/tape"
)

type entry struct {
	id      int
	kind    string
	label   string
	obj     any
	write   bool
	wakeAt  time.Time // zero: not timed
	enabled func() bool
	wake    chan struct{}
}

type lockState struct {
	writer  bool
	readers int
}

type Sched struct {
	T *tape.Tape

	mu      sync.Mutex
	parked  []*entry
	nextID  int
	kick    chan struct{}
	stop    chan struct{}
	stopped chan struct{}
	locks   map[any]*lockState
	objIDs  map[any]int

	Seq       int // global event sequence number (decisions made)
	traceHash uint64
	Trace     []string
	KeepTrace bool
	Releases  map[string]int
	Deadlock  string
	MaxSteps  int
	OnStep    func(seq int) // invariant hook, called after each quiescence
}

func New(t *tape.Tape) *Sched {
	return &Sched{T: t, kick: make(chan struct{}, 1), stop: make(chan struct{}), stopped: make(chan struct{}),
		locks: map[any]*lockState{}, objIDs: map[any]int{}, Releases: map[string]int{}, MaxSteps: 100000}
}

func (s *Sched) objID(obj any) int {
	if obj == nil {
		return 0
	}
	if id, ok := s.objIDs[obj]; ok {
		return id
	}
	id := len(s.objIDs) + 1
	s.objIDs[obj] = id
	return id
}

func (s *Sched) poke() {
	select {
	case s.kick <- struct{}{}:
	default:
	}
}

// park registers an entry and blocks until released.
func (s *Sched) park(kind, label string, obj any, write bool, wakeAt time.Time, enabled func() bool) {
	e := s.register(kind, label, obj, write, wakeAt, enabled)
	<-e.wake
}

func (s *Sched) register(kind, label string, obj any, write bool, wakeAt time.Time, enabled func() bool) *entry {
	s.mu.Lock()
	e := &entry{id: s.nextID, kind: kind, label: label, obj: obj, write: write, wakeAt: wakeAt, enabled: enabled, wake: make(chan struct{})}
	s.nextID++
	s.parked = append(s.parked, e)
	s.mu.Unlock()
	s.poke()
	return e
}

// ---- simhook.Scheduler ------------------------------------------------------

func (s *Sched) Yield(name string) { s.park("yield", name, nil, false, time.Time{}, nil) }

func (s *Sched) Register(label string) func() {
	e := s.register("spawn", label, nil, false, time.Time{}, nil)
	return func() { <-e.wake }
}

func (s *Sched) Lock(obj any, write bool) {
	s.mu.Lock()
	ls := s.locks[obj]
	if ls == nil {
		ls = &lockState{}
		s.locks[obj] = ls
	}
	s.mu.Unlock()
	kind := "lock"
	if !write {
		kind = "rlock"
	}
	s.park(kind, "", obj, write, time.Time{}, func() bool {
		if write {
			return !ls.writer && ls.readers == 0
		}
		return !ls.writer
	})
	// released: take it (only one task runs at a time)
	if write {
		ls.writer = true
	} else {
		ls.readers++
	}
}

func (s *Sched) Unlock(obj any, write bool) {
	s.mu.Lock()
	ls := s.locks[obj]
	s.mu.Unlock()
	if ls != nil {
		if write {
			ls.writer = false
		} else if ls.readers > 0 {
			ls.readers--
		}
	}
	s.park("unlock", "", obj, write, time.Time{}, nil)
}

// ---- harness API ------------------------------------------------------------

// Go starts a harness task, parked at birth.
func (s *Sched) Go(label string, fn func()) {
	wait := s.Register(label)
	go func() {
		wait()
		fn()
		s.poke()
	}()
}

// Point is a named scheduling point for simulated peers (network, processes).
func (s *Sched) Point(kind, label string) { s.park(kind, label, nil, false, time.Time{}, nil) }

// Sleep is a simulated wait owned by the scheduler.
func (s *Sched) Sleep(kind, label string, d time.Duration) {
	s.park(kind, label, nil, false, time.Now().Add(d), nil)
}

// SleepOr waits d of simulated time or until cancel fires, whichever is first;
// it reports whether the full time elapsed.
func (s *Sched) SleepOr(kind, label string, d time.Duration, cancel <-chan struct{}) bool {
	e := s.register(kind, label, nil, false, time.Now().Add(d), nil)
	select {
	case <-e.wake:
		return true
	case <-cancel:
		// withdraw the entry; if it was released concurrently, consume that
		s.mu.Lock()
		for i, p := range s.parked {
			if p == e {
				s.parked = append(s.parked[:i], s.parked[i+1:]...)
				break
			}
		}
		s.mu.Unlock()
		s.poke()
		return false
	}
}

func (s *Sched) logf(format string, a ...any) {
	line := fmt.Sprintf(format, a...)
	h := fnv.New64a()
	var b [8]byte
	for i := 0; i < 8; i++ {
		b[i] = byte(s.traceHash >> (8 * i))
	}
	h.Write(b[:])
	h.Write([]byte(line))
	s.traceHash = h.Sum64()
	if s.KeepTrace && len(s.Trace) < 4000 {
		s.Trace = append(s.Trace, line)
	}
}

func (s *Sched) TraceHash() uint64 { return s.traceHash }

// Run is the scheduler loop; call it on its own goroutine inside the bubble.
// It returns when Stop is called.
func (s *Sched) Run() {
	defer close(s.stopped)
	for {
		select {
		case <-s.stop:
			return
		case <-s.kick:
		}
		for {
			// distinct instants for timers created by different tasks
			time.Sleep(time.Microsecond)
			synctest.Wait()
			select {
			case <-s.stop:
				return
			default:
			}
			if s.OnStep != nil {
				s.OnStep(s.Seq)
			}
			s.mu.Lock()
			if len(s.parked) == 0 {
				s.mu.Unlock()
				break // wait for the next kick (or for fake time to move a blocked goroutine)
			}
			sort.Slice(s.parked, func(i, j int) bool { return s.parked[i].id < s.parked[j].id })
			now := time.Now()
			var ready []*entry
			var nextWake time.Time
			for _, e := range s.parked {
				if !e.wakeAt.IsZero() && e.wakeAt.After(now) {
					if nextWake.IsZero() || e.wakeAt.Before(nextWake) {
						nextWake = e.wakeAt
					}
					continue
				}
				if e.enabled != nil && !e.enabled() {
					continue
				}
				ready = append(ready, e)
			}
			if len(ready) == 0 {
				s.mu.Unlock()
				if !nextWake.IsZero() {
					s.logf("advance clock by %v to next simulated wake-up", nextWake.Sub(now))
					time.Sleep(nextWake.Sub(now)) // advance the fake clock to the next simulated wake-up
					continue
				}
				s.logf("nothing ready among %d parked: waiting for timers of the code under test", len(s.parked))
				// Tasks are parked but none can proceed. Other goroutines may
				// still be waiting on fake-time timers (timeouts); let the
				// clock move by blocking on the kick channel with a guard timer.
				if s.waitForProgress() {
					continue
				}
				s.mu.Lock()
				var desc []string
				for _, e := range s.parked {
					desc = append(desc, fmt.Sprintf("#%d %s %s obj%d", e.id, e.kind, e.label, s.objID(e.obj)))
				}
				s.mu.Unlock()
				s.Deadlock = fmt.Sprintf("no parked task can proceed: %v", desc)
				s.logf("deadlock %v", desc)
				return
			}
			pick := ready[s.T.Draw(len(ready))]
			for i, e := range s.parked {
				if e == pick {
					s.parked = append(s.parked[:i], s.parked[i+1:]...)
					break
				}
			}
			s.Seq++
			s.Releases[pick.kind]++
			s.logf("%d release #%d %s %s obj%d of %d ready", s.Seq, pick.id, pick.kind, pick.label, s.objID(pick.obj), len(ready))
			s.mu.Unlock()
			if s.Seq > s.MaxSteps {
				s.Deadlock = fmt.Sprintf("step budget of %d scheduler decisions exceeded", s.MaxSteps)
				return
			}
			close(pick.wake)
		}
	}
}

// waitForProgress blocks (durably) for up to one simulated hour to let timers
// of the code under test fire; it reports whether anything changed.
func (s *Sched) waitForProgress() bool {
	s.mu.Lock()
	before := s.nextID
	n := len(s.parked)
	s.mu.Unlock()
	t := time.NewTimer(time.Hour)
	defer t.Stop()
	select {
	case <-s.kick:
		return true
	case <-s.stop:
		return true
	case <-t.C:
	}
	s.mu.Lock()
	defer s.mu.Unlock()
	return s.nextID != before || len(s.parked) != n
}

func (s *Sched) Stop() {
	close(s.stop)
	<-s.stopped
}

// Parked reports how many tasks are parked (for the harness' end-of-case check).
func (s *Sched) Parked() int {
	s.mu.Lock()
	defer s.mu.Unlock()
	return len(s.parked)
}

// Now is the current global event sequence number: invoke/return stamps for
// recorded histories.
func (s *Sched) Now() int { return s.Seq }
