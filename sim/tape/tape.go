// Package tape is the single source of every decision a simulated case makes:
// generated workload, chunk plans, faults and where they land, which parked
// task runs next, latencies, map permutations. One tape is one exactly
// repeatable execution.
//
// A tape has three layers, consulted in this order for draw number i:
//
//	forced[i]   if i < len(forced)   (enumerated sub-spaces, replays, shrinking)
//	PCG stream  if a seed was given  (sampling)
//	0           otherwise            (replays past the end: "simplest choice")
//
// Every value handed out is recorded, so Record() of a generated tape replayed
// through NewReplay reproduces the same execution.
package tape

import (
	"hash/fnv"
	"math/rand/v2"
)

type Tape struct {
	forced []uint64
	rng    *rand.PCG
	rec    []uint64
	pos    int
}

// Seed derives the PCG state for one case from the run's integer seed, the
// property and the case number.
func Seed(seed uint64, property string, caseNo uint64) (uint64, uint64) {
	h := fnv.New64a()
	var b [8]byte
	put := func(v uint64) {
		for i := 0; i < 8; i++ {
			b[i] = byte(v >> (8 * i))
		}
		h.Write(b[:])
	}
	put(seed)
	h.Write([]byte(property))
	put(caseNo)
	a := h.Sum64()
	put(0x9e3779b97f4a7c15)
	return a, h.Sum64()
}

// New returns a generating tape: forced prefix, then the PCG stream.
func New(seed uint64, property string, caseNo uint64, forced []uint64) *Tape {
	a, b := Seed(seed, property, caseNo)
	return &Tape{forced: forced, rng: rand.NewPCG(a, b)}
}

// NewReplay returns a tape that plays vals back and yields zeros afterwards.
func NewReplay(vals []uint64) *Tape {
	return &Tape{forced: vals}
}

// Draw returns a value in [0,n). n <= 1 returns 0 but still consumes a
// position, so that the position of later draws does not depend on n.
func (t *Tape) Draw(n int) int {
	var raw uint64
	switch {
	case t.pos < len(t.forced):
		raw = t.forced[t.pos]
	case t.rng != nil:
		raw = t.rng.Uint64() >> 1
	default:
		raw = 0
	}
	t.pos++
	var v uint64
	if n > 1 {
		v = raw % uint64(n)
	}
	t.rec = append(t.rec, v)
	return int(v)
}

// Pos is the number of draws made so far (the tape position of the next draw).
func (t *Tape) Pos() int { return t.pos }

// Record returns the values handed out so far.
func (t *Tape) Record() []uint64 {
	out := make([]uint64, len(t.rec))
	copy(out, t.rec)
	return out
}

// Bool is true with probability num/den.
func (t *Tape) Bool(num, den int) bool { return t.Draw(den) < num }

// Range returns a value in [lo,hi].
func (t *Tape) Range(lo, hi int) int {
	if hi <= lo {
		t.Draw(1)
		return lo
	}
	return lo + t.Draw(hi-lo+1)
}

// Pick returns one of the strings.
func (t *Tape) Pick(xs ...string) string { return xs[t.Draw(len(xs))] }

// Perm returns a permutation of 0..n-1 (Fisher-Yates, n-1 draws). All-zero
// draws give the identity permutation.
func (t *Tape) Perm(n int) []int {
	p := make([]int, n)
	for i := range p {
		p[i] = i
	}
	for i := 0; i+1 < n; i++ {
		j := i + t.Draw(n-i)
		p[i], p[j] = p[j], p[i]
	}
	return p
}
