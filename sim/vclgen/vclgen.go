// Package vclgen is a tape-driven, grammar-directed generator of Fastly VCL
// source text. Every choice is a tape draw and the all-zero tape yields the
// smallest program, so tape shrinking shrinks programs.
package vclgen

import (
	"fmt"
	"strings"

	"falcosim/sim/tape"
)

type Options struct {
	MaxDecls  int  // top-level declarations
	MaxStmts  int  // statements per block
	MaxDepth  int  // nesting of blocks / expressions
	Comments  bool // sprinkle comments and odd whitespace
	Includes  []string
	BigString bool // allow strings around/above 64 KiB (C19)
}

func Default() Options { return Options{MaxDecls: 5, MaxStmts: 5, MaxDepth: 3} }

type G struct {
	t     *tape.Tape
	o     Options
	b     strings.Builder
	subs  []string
	acls  []string
	tabs  []string
	backs []string
	lbl   int
	depth int
	ind   int
}

func New(t *tape.Tape, o Options) *G { return &G{t: t, o: o} }

var identPool = []string{"a", "b", "c", "foo", "bar", "x1", "edge_a", "B2", "q"}
var headerPool = []string{"req.http.Host", "req.http.X-A", "req.http.Cookie:sid", "req.url", "req.http.User-Agent", "beresp.http.Cache-Control", "resp.http.X-B", "bereq.http.X-C", "obj.http.X-D", "req.backend", "client.ip", "req.restarts", "var.s", "var.i", "var.b"}
var fnPool = []string{"std.tolower", "std.strlen", "regsub", "digest.hash_md5", "std.atoi", "time.add", "substr", "h2.push", "std.collect", "header.set", "uuid.version4", "table.lookup", "ratelimit.check_rate"}
var typePool = []string{"STRING", "INTEGER", "BOOL", "FLOAT", "RTIME", "TIME", "IP", "BACKEND", "ACL"}
var assignOps = []string{"=", "+=", "-=", "*=", "/=", "%=", "|=", "&=", "^=", "<<=", ">>=", "rol=", "ror=", "&&=", "||="}
var infixOps = []string{"==", "!=", "~", "!~", "<", ">", "<=", ">=", "&&", "||", "+", ""}
var actions = []string{"lookup", "pass", "deliver", "fetch", "hash", "restart", "error", "deliver_stale", "hit_for_pass", "upgrade"}

func (g *G) w(s string)                { g.b.WriteString(s) }
func (g *G) f(format string, a ...any) { fmt.Fprintf(&g.b, format, a...) }
func (g *G) pick(xs []string) string   { return xs[g.t.Draw(len(xs))] }
func (g *G) nl() {
	g.w("\n")
	g.w(strings.Repeat("  ", g.ind))
}

// sp emits separating whitespace, and — with Comments — the occasional comment.
func (g *G) sp() {
	if !g.o.Comments {
		g.w(" ")
		return
	}
	switch g.t.Draw(12) {
	case 0:
		g.w(" /* c */ ")
	case 1:
		g.w("  ")
	case 2:
		g.w("\t")
	case 3:
		g.w(" # c")
		g.nl()
	case 4:
		g.w(" // c")
		g.nl()
	case 5:
		g.w("\r\n")
	default:
		g.w(" ")
	}
}

func (g *G) name(prefix string, n int) string { return fmt.Sprintf("%s_%d", prefix, n) }

func (g *G) String() string { return g.b.String() }

// StringLit renders a string literal of one of the lexical forms.
func (g *G) StringLit() string {
	body := g.strBody()
	switch g.t.Draw(8) {
	case 5:
		return `{"` + strings.ReplaceAll(body, `"}`, `" }`) + `"}`
	case 6:
		d := g.pick([]string{"EOT", "x", "J1", "_"})
		return "{" + d + `"` + strings.ReplaceAll(body, `"`+d+`}`, "") + `"` + d + "}"
	default:
		return `"` + strings.ReplaceAll(strings.ReplaceAll(body, `"`, `%22`), "\n", " ") + `"`
	}
}

func (g *G) strBody() string {
	switch g.t.Draw(19) {
	case 17:
		// long and not ASCII: multi-byte characters at every alignment against any
		// power-of-two chunk or buffer size a reader may use (0–3 bytes of lead)
		ch := g.pick([]string{"\u3042", "\u00e9", "\U0001F600", "\u3067\u3059"})
		return strings.Repeat("x", g.t.Draw(4)) + strings.Repeat(ch, 200+g.t.Draw(900))
	case 13:
		return "caf\uFFFD au lait" // a validly encoded replacement character
	case 14:
		return "\U0001F600 e\u0301 \uFEFFx \u2028\u00a0y" // astral, combining, BOM, separators
	case 15:
		return "caf\xe9 \xff\xfe" // not UTF-8 (Latin-1 bytes): the lexer reads replacement characters
	case 16:
		return "\u00e9" + strings.Repeat("\u3042", 1+g.t.Draw(40)) + "\U00010348"
	case 0:
		return "s"
	case 1:
		return ""
	case 2:
		return "a b"
	case 3:
		return "%20x%u0041%u{1F600}"
	case 4:
		return "^/(foo|bar)/[0-9]+$"
	case 5:
		return "héllo wörld ✓"
	case 6:
		return "line1\nline2"
	case 7:
		return `{"k": "v"}`
	case 8:
		return strings.Repeat("ab", 1+g.t.Draw(300))
	case 9:
		if g.o.BigString {
			n := []int{4090, 4096, 8192, 65534, 65535, 65536, 70000}[g.t.Draw(7)]
			return strings.Repeat("z", n)
		}
		return "zz"
	case 10:
		return "max-age=3600, public"
	case 11:
		return "100%25"
	case 12:
		return "\t tab"
	default:
		return g.pick(identPool)
	}
}

func (g *G) Number() string {
	switch g.t.Draw(12) {
	case 0:
		return "0"
	case 1:
		return "1"
	case 2:
		return "9223372036854775807"
	case 3:
		return "0x1F"
	case 4:
		return "1.5"
	case 5:
		return "0.000"
	case 6:
		return "1e3"
	case 7:
		return "0x1.8p1"
	case 8:
		return "10s"
	case 9:
		return "5ms"
	case 10:
		return "2.5h"
	default:
		return fmt.Sprint(g.t.Draw(100000))
	}
}

func (g *G) Atom() string {
	switch g.t.Draw(9) {
	case 0, 1:
		return g.pick(headerPool)
	case 2, 3:
		return g.StringLit()
	case 4:
		return g.Number()
	case 5:
		return g.pick([]string{"true", "false"})
	case 6:
		return g.pick(identPool)
	case 7:
		return "now"
	default:
		return g.pick(headerPool)
	}
}

// Expr renders an expression. cond biases towards boolean operators.
func (g *G) Expr(depth int, cond bool) string {
	if depth <= 0 {
		return g.Atom()
	}
	k := g.t.Draw(12)
	switch {
	case k <= 3:
		return g.Atom()
	case k == 4:
		return "!" + g.Expr(depth-1, true)
	case k == 5:
		return "(" + g.Expr(depth-1, cond) + ")"
	case k == 6:
		return "if(" + g.Expr(depth-1, true) + ", " + g.Expr(depth-1, false) + ", " + g.Expr(depth-1, false) + ")"
	case k == 7:
		return g.FuncCall(depth - 1)
	case k == 8:
		return "-" + g.Number()
	default:
		var op string
		if cond {
			op = g.pick(infixOps[:10])
		} else {
			op = g.pick(infixOps[10:])
		}
		if op == "" || op == "+" {
			// concatenation operands: strings, identifiers, calls
			l, r := g.concatOperand(depth-1), g.concatOperand(depth-1)
			if op == "" {
				return l + " " + r
			}
			return l + " + " + r
		}
		l, r := g.Expr(depth-1, false), g.Expr(depth-1, false)
		return l + " " + op + " " + r
	}
}

func (g *G) concatOperand(depth int) string {
	switch g.t.Draw(6) {
	case 0, 1:
		return g.StringLit()
	case 2:
		return g.pick(headerPool)
	case 3:
		if depth > 0 {
			return g.FuncCall(depth - 1)
		}
		return g.pick(headerPool)
	case 4:
		if depth > 0 {
			return "if(" + g.Expr(depth-1, true) + ", " + g.StringLit() + ", " + g.StringLit() + ")"
		}
		return g.StringLit()
	default:
		return g.pick(headerPool)
	}
}

func (g *G) FuncCall(depth int) string {
	fn := g.pick(fnPool)
	n := g.t.Draw(4)
	args := make([]string, n)
	for i := range args {
		args[i] = g.Expr(depth, false)
	}
	return fn + "(" + strings.Join(args, ", ") + ")"
}

func (g *G) lhs() string {
	return g.pick([]string{"req.http.X-A", "var.s", "var.i", "var.b", "beresp.ttl", "resp.http.X-B", "req.http.Cookie:sid", "bereq.http.X-C", "obj.status", "req.backend", "var.f", "var.t"})
}

// Stmt emits one statement at the current indentation.
func (g *G) Stmt(depth int) {
	g.nl()
	if g.o.Comments && g.t.Bool(1, 6) {
		g.w(g.pick([]string{"# leading", "// leading", "/* leading */", "# falco-ignore-next-line", "// @plugin: x"}))
		g.nl()
	}
	k := g.t.Draw(24)
	switch k {
	case 0, 1:
		g.f("set%s%s%s%s%s%s;", wsp(g), g.lhs(), wsp(g), g.pick(assignOps), wsp(g), g.Expr(depth, false))
	case 2:
		g.f("unset %s;", g.pick([]string{"req.http.X-A", "req.http.Cookie:sid", "resp.http.X-*", "bereq.http.X-C"}))
	case 3:
		g.f("remove %s;", g.pick([]string{"req.http.X-A", "resp.http.X-B"}))
	case 4:
		g.f("add %s = %s;", g.pick([]string{"resp.http.Set-Cookie", "req.http.X-A"}), g.Expr(depth, false))
	case 5:
		if len(g.subs) > 0 && g.t.Bool(3, 4) {
			s := g.pick(g.subs)
			switch g.t.Draw(3) {
			case 0:
				g.f("call %s;", s)
			case 1:
				g.f("call %s();", s)
			default:
				g.f("call %s(%s, %s);", s, g.Expr(1, false), g.Expr(1, false))
			}
		} else {
			g.f("call %s;", g.pick(identPool))
		}
	case 6:
		g.f("declare local var.%s %s;", g.pick(identPool), g.pick(typePool))
	case 7:
		switch g.t.Draw(5) {
		case 0:
			g.w("error;")
		case 1:
			g.f("error %d;", 400+g.t.Draw(200))
		case 2:
			g.f("error %d %s;", 400+g.t.Draw(200), g.StringLit())
		case 3:
			g.f("error %s;", g.pick(headerPool))
		default:
			g.f("error %d %s %s;", 600+g.t.Draw(300), g.StringLit(), g.pick(headerPool))
		}
	case 8:
		g.w("esi;")
	case 9, 10:
		g.f("log %s;", g.Expr(depth, false))
	case 11:
		g.w("restart;")
	case 12:
		switch g.t.Draw(6) {
		case 0:
			g.w("return;")
		case 1:
			g.f("return(%s);", g.pick(actions))
		case 2:
			g.f("return (%s);", g.pick(actions))
		case 3:
			g.f("return %s;", g.pick(actions))
		case 4:
			g.f("return %s;", g.Expr(depth, true))
		default:
			g.f("return(%s);", g.pick(actions))
		}
	case 13:
		g.f("synthetic %s;", g.Expr(depth, false))
	case 14:
		g.f("synthetic.base64 %s;", g.StringLit())
	case 15, 16:
		g.If(depth)
	case 17:
		g.Switch(depth)
	case 18:
		g.lbl++
		l := g.name("lbl", g.lbl)
		g.f("goto %s;", l)
		g.nl()
		g.f("%s:", l)
	case 19:
		g.w(g.FuncCall(depth) + ";")
	case 20:
		if depth > 0 {
			g.Block(depth - 1)
		} else {
			g.w("esi;")
		}
	case 21:
		if len(g.o.Includes) > 0 {
			g.f("include %q;", g.pick(g.o.Includes))
		} else {
			g.f("log %s;", g.StringLit())
		}
	default:
		g.f("set %s = %s;", g.lhs(), g.Atom())
	}
	if g.o.Comments && g.t.Bool(1, 8) {
		g.w(g.pick([]string{" # trailing", " // trailing", " /* trailing */", " // falco-ignore"}))
	}
}

func wsp(g *G) string {
	if !g.o.Comments {
		return " "
	}
	switch g.t.Draw(8) {
	case 0:
		return " /* i */ "
	case 1:
		return "\t"
	case 2:
		return "  "
	default:
		return " "
	}
}

func (g *G) Block(depth int) {
	g.w("{")
	g.ind++
	n := g.t.Draw(g.o.MaxStmts + 1)
	for i := 0; i < n; i++ {
		g.Stmt(depth)
	}
	if g.o.Comments && g.t.Bool(1, 8) {
		g.nl()
		g.w("# block infix")
	}
	g.ind--
	g.nl()
	g.w("}")
}

func (g *G) If(depth int) {
	g.f("if (%s) ", g.Expr(depth, true))
	d := depth - 1
	if d < 0 {
		d = 0
	}
	g.Block(d)
	n := g.t.Draw(3)
	for i := 0; i < n; i++ {
		g.f(" %s (%s) ", g.pick([]string{"else if", "elseif", "elsif"}), g.Expr(depth, true))
		g.Block(d)
	}
	if g.t.Bool(1, 2) {
		g.w(" else ")
		g.Block(d)
	}
}

func (g *G) Switch(depth int) {
	g.f("switch (%s) {", g.pick([]string{"req.http.Host", "req.url", "std.tolower(req.http.X-A)", "var.s"}))
	n := 1 + g.t.Draw(4)
	hasDefault := false
	for i := 0; i < n; i++ {
		g.nl()
		if !hasDefault && g.t.Bool(1, 4) {
			g.w("default:")
			hasDefault = true
		} else if g.t.Bool(1, 3) {
			g.f("case ~ \"^re%d\":", i)
		} else {
			g.f("case \"v%d\":", i)
		}
		g.ind++
		m := g.t.Draw(3)
		for j := 0; j < m; j++ {
			g.Stmt(0)
		}
		g.nl()
		if i+1 < n && g.t.Bool(1, 4) {
			g.w("fallthrough;")
		} else {
			g.w("break;")
		}
		g.ind--
	}
	g.nl()
	g.w("}")
}

func (g *G) Acl() {
	n := len(g.acls)
	name := g.name("acl", n)
	g.acls = append(g.acls, name)
	g.f("acl %s {", name)
	g.ind++
	m := g.t.Draw(5)
	for i := 0; i < m; i++ {
		g.nl()
		if g.t.Bool(1, 4) {
			g.w("!")
		}
		if g.t.Bool(1, 3) {
			g.f("\"2001:db8:%x::\"", g.t.Draw(65536))
			if g.t.Bool(1, 2) {
				g.f("/%d", 16+g.t.Draw(113))
			}
		} else {
			g.f("\"%d.%d.%d.%d\"", g.t.Draw(256), g.t.Draw(256), g.t.Draw(256), g.t.Draw(256))
			if g.t.Bool(1, 2) {
				g.f("/%d", g.t.Draw(33))
			}
		}
		g.w(";")
	}
	g.ind--
	g.nl()
	g.w("}")
}

func (g *G) Backend() {
	n := len(g.backs)
	name := g.name("F_be", n)
	g.backs = append(g.backs, name)
	g.f("backend %s {", name)
	g.ind++
	props := []string{`.host = "example.com";`, `.port = "443";`, `.ssl = true;`, `.connect_timeout = 1s;`, `.first_byte_timeout = 15s;`, `.max_connections = 200;`, `.between_bytes_timeout = 10s;`, `.ssl_check_cert = always;`, `.dynamic = true;`, `.share_key = "k";`}
	m := g.t.Draw(len(props) + 1)
	for i := 0; i < m; i++ {
		g.nl()
		g.w(props[i])
	}
	if g.t.Bool(1, 3) {
		g.nl()
		g.w(".probe = {")
		g.ind++
		for _, p := range []string{`.request = "HEAD / HTTP/1.1" "Host: example.com" "Connection: close";`, `.threshold = 1;`, `.timeout = 2s;`, `.window = 5;`, `.dummy = true;`}[:g.t.Draw(6)] {
			g.nl()
			g.w(p)
		}
		g.ind--
		g.nl()
		g.w("}")
	}
	g.ind--
	g.nl()
	g.w("}")
}

func (g *G) Director() {
	name := g.name("dir", g.t.Draw(100))
	typ := g.pick([]string{"random", "fallback", "hash", "client", "chash"})
	g.f("director %s %s {", name, typ)
	g.ind++
	if g.t.Bool(1, 2) {
		g.nl()
		g.f(".quorum = %d%%;", g.t.Draw(101))
	}
	if g.t.Bool(1, 3) {
		g.nl()
		g.f(".retries = %d;", g.t.Draw(10))
	}
	m := g.t.Draw(4)
	for i := 0; i < m; i++ {
		g.nl()
		b := "F_be_0"
		if len(g.backs) > 0 {
			b = g.pick(g.backs)
		}
		g.f("{ .backend = %s; .weight = %d; }", b, 1+g.t.Draw(9))
	}
	g.ind--
	g.nl()
	g.w("}")
}

func (g *G) Table() {
	n := len(g.tabs)
	name := g.name("tbl", n)
	g.tabs = append(g.tabs, name)
	typ := g.pick([]string{"", "STRING", "INTEGER", "BOOL", "FLOAT", "RTIME", "BACKEND", "ACL"})
	if typ == "" {
		g.f("table %s {", name)
	} else {
		g.f("table %s %s {", name, typ)
	}
	g.ind++
	m := g.t.Draw(5)
	for i := 0; i < m; i++ {
		g.nl()
		var v string
		switch typ {
		case "", "STRING":
			v = g.StringLit()
		case "INTEGER":
			v = fmt.Sprint(g.t.Draw(1000))
		case "BOOL":
			v = g.pick([]string{"true", "false"})
		case "FLOAT":
			v = "1.25"
		case "RTIME":
			v = "10s"
		case "BACKEND":
			v = "F_be_0"
		case "ACL":
			v = "acl_0"
		}
		g.f("\"k%d\": %s", i, v)
		if i+1 < m || g.t.Bool(1, 2) {
			g.w(",")
		}
	}
	g.ind--
	g.nl()
	g.w("}")
}

var lifecycle = []string{"vcl_recv", "vcl_hash", "vcl_hit", "vcl_miss", "vcl_pass", "vcl_fetch", "vcl_error", "vcl_deliver", "vcl_log"}

func (g *G) Sub() {
	var name string
	switch g.t.Draw(3) {
	case 0:
		name = g.pick(lifecycle)
	default:
		name = g.name("user", len(g.subs))
		g.subs = append(g.subs, name)
	}
	if g.t.Bool(1, 5) {
		np := g.t.Draw(3)
		ps := make([]string, np)
		for i := range ps {
			ps[i] = fmt.Sprintf("%s var.p%d", g.pick(typePool[:7]), i)
		}
		rt := ""
		if g.t.Bool(2, 3) {
			rt = " " + g.pick(typePool[:7])
		}
		g.f("sub %s(%s)%s ", name, strings.Join(ps, ", "), rt)
	} else {
		g.f("sub %s ", name)
	}
	g.Block(g.o.MaxDepth)
}

func (g *G) Decl() {
	g.nl()
	if g.o.Comments && g.t.Bool(1, 5) {
		g.w(g.pick([]string{"# decl", "// @scope: recv,fetch", "/* decl */"}))
		g.nl()
	}
	switch g.t.Draw(12) {
	case 0:
		g.Acl()
	case 1:
		g.Backend()
	case 2:
		g.Director()
	case 3:
		g.Table()
	case 4:
		g.f("penaltybox pb_%d {}", g.t.Draw(5))
	case 5:
		g.f("ratecounter rc_%d {}", g.t.Draw(5))
	case 6:
		if len(g.o.Includes) > 0 {
			g.f("include %q;", g.pick(g.o.Includes))
		} else {
			g.f("include \"mod_%d\";", g.t.Draw(5))
		}
	case 7:
		g.f("import %s;", g.pick(identPool))
	default:
		g.Sub()
	}
	g.w("\n")
}

// Program renders a whole VCL file.
func Program(t *tape.Tape, o Options) string {
	g := New(t, o)
	n := 1 + t.Draw(o.MaxDecls)
	if o.Comments && t.Bool(1, 4) {
		g.w("pragma optional_param geoip_opt_in true;\nC!\nW!\n")
	}
	for i := 0; i < n; i++ {
		g.Decl()
	}
	return g.String()
}

// Snippet renders a statement-only snippet.
func Snippet(t *tape.Tape, o Options) string {
	g := New(t, o)
	n := 1 + t.Draw(o.MaxStmts)
	for i := 0; i < n; i++ {
		g.Stmt(o.MaxDepth)
	}
	g.w("\n")
	return g.String()
}
