#!/bin/sh
# Builds the driver and the overlay generator offline. Run from /verif.
set -e
cd "$(dirname "$0")"
export GOFLAGS=-mod=mod GOPROXY=off GOSUMDB=off GOTOOLCHAIN=local
GO=/opt/veriftools/go1.26.8/bin/go
[ -x "$GO" ] || GO=go1.26.8
mkdir -p bin evidence replays
S=$(mktemp -d /var/tmp/falcosim-setup-XXXXXX)
trap 'rm -rf "$S"' EXIT
cp go.mod go.sum "$S"/
$GO build -modfile="$S/go.mod" -o bin/falcosim ./cmd/falcosim
$GO build -modfile="$S/go.mod" -o bin/simrewrite ./cmd/simrewrite
$GO build -modfile="$S/go.mod" -o bin/faultrun ./cmd/faultrun
for t in strace prlimit setpriv git; do
  command -v $t >/dev/null || { echo "setup: missing tool $t" >&2; exit 2; }
done
echo "setup ok"
