package main

import (
	"bufio"
	"encoding/json"
	"os"
	"path/filepath"
	"strings"
)

// Finding is one line of /verif/known_findings.jsonl. The file is committed
// and is never written at run time. status "known" suppresses exactly the
// violation with that key (printed as KNOWN-FINDING); status "fixed" records a
// repaired defect and suppresses nothing.
type Finding struct {
	Status   string `json:"status"`
	Property string `json:"property"`
	Key      string `json:"key"`
	What     string `json:"what"`
	Commit   string `json:"commit,omitempty"`
}

type findings struct{ list []Finding }

func loadFindings() *findings {
	f := &findings{}
	fh, err := os.Open(filepath.Join(verifDir, "known_findings.jsonl"))
	if err != nil {
		return f
	}
	defer fh.Close()
	sc := bufio.NewScanner(fh)
	sc.Buffer(make([]byte, 1<<20), 1<<20)
	for sc.Scan() {
		line := strings.TrimSpace(sc.Text())
		if line == "" || strings.HasPrefix(line, "#") {
			continue
		}
		var e Finding
		if json.Unmarshal([]byte(line), &e) == nil {
			f.list = append(f.list, e)
		}
	}
	return f
}

func (f *findings) known(prop, key string) *Finding {
	for i := range f.list {
		e := &f.list[i]
		if e.Status == "known" && e.Property == prop && e.Key == key {
			return e
		}
	}
	return nil
}

func (f *findings) forProperty(prop string) []Finding {
	var out []Finding
	for _, e := range f.list {
		if e.Property == prop {
			out = append(out, e)
		}
	}
	return out
}
