package main

import (
	"bytes"
	"fmt"
	"os"
	"os/exec"
	"path/filepath"
	"strings"
	"time"
)

// repoDir is the falco working tree under test: /repo, or $FALCOSIM_REPO for
// background runs against a snapshot (never for registered checks).
var repoDir = func() string {
	if r := os.Getenv("FALCOSIM_REPO"); r != "" {
		return r
	}
	return "/repo"
}()

func goEnv() []string {
	env := os.Environ()
	env = append(env,
		"GOFLAGS=-mod=mod", "GOPROXY=off", "GOSUMDB=off", "GOTOOLCHAIN=local",
		"CGO_ENABLED=1",
	)
	return env
}

func goBin() string {
	for _, p := range []string{"/opt/veriftools/go1.26.8/bin/go", "/usr/local/bin/go1.26.8"} {
		if _, err := os.Stat(p); err == nil {
			return p
		}
	}
	return "go1.26.8"
}

// scratchDir creates the per-invocation scratch directory (outside /repo,
// /verif and /tmp) and returns it with its cleanup.
func scratchDir() (string, func()) {
	base := os.Getenv("VERIF_SCRATCH")
	if base == "" {
		base = "/var/tmp"
	}
	os.MkdirAll(base, 0o755)
	d, err := os.MkdirTemp(base, "falcosim-")
	if err != nil {
		fmt.Fprintln(os.Stderr, "falcosim: cannot create scratch:", err)
		os.Exit(2)
	}
	return d, func() {
		if os.Getenv("FALCOSIM_KEEP") == "" {
			os.RemoveAll(d)
		}
	}
}

func repoStatus() string {
	out, _ := exec.Command("git", "-C", repoDir, "status", "--porcelain").Output()
	return string(out)
}

func repoHead() string {
	out, _ := exec.Command("git", "-C", repoDir, "rev-parse", "--short", "HEAD").Output()
	return strings.TrimSpace(string(out))
}

type buildInfo struct {
	Bin        string
	RewriteLog any
	Seconds    float64
}

// modfile copies /verif/go.mod and go.sum into scratch so that -mod=mod never
// rewrites a tracked file.
func modfile(scratch string) (string, error) {
	for _, f := range []string{"go.mod", "go.sum"} {
		b, err := os.ReadFile(filepath.Join(verifDir, f))
		if err != nil {
			return "", err
		}
		if f == "go.mod" && repoDir != "/repo" {
			b = bytes.ReplaceAll(b, []byte("=> /repo\n"), []byte("=> "+repoDir+"\n"))
		}
		if err := os.WriteFile(filepath.Join(scratch, f), b, 0o644); err != nil {
			return "", err
		}
	}
	return filepath.Join(scratch, "go.mod"), nil
}

// buildWorker compiles ./harness/<engine> as a test binary straight from
// /repo's working tree (the falco module is `replace`d to /repo), with the
// source overlay when the engine needs it.
func buildWorker(scratch, engine string, overlay, race bool) (*buildInfo, error) {
	start := time.Now()
	mf, err := modfile(scratch)
	if err != nil {
		return nil, err
	}
	info := &buildInfo{Bin: filepath.Join(scratch, engine+".test")}
	args := []string{"test", "-c", "-modfile=" + mf, "-o", info.Bin}
	if overlay {
		ov := filepath.Join(scratch, "overlay.json")
		cmd := exec.Command(filepath.Join(verifDir, "bin", "simrewrite"), "-repo", repoDir, "-out", scratch, "-modfile", mf)
		cmd.Env = goEnv()
		cmd.Dir = verifDir
		var stderr bytes.Buffer
		cmd.Stderr = &stderr
		out, err := cmd.Output()
		if err != nil {
			return nil, fmt.Errorf("simrewrite failed: %v\n%s", err, stderr.String())
		}
		info.RewriteLog = jsonOrString(out)
		args = append(args, "-overlay", ov)
	}
	if race {
		args = append(args, "-race")
		info.Bin = filepath.Join(scratch, engine+".race.test")
		args[4] = info.Bin
	}
	args = append(args, "./harness/"+engine)
	cmd := exec.Command(goBin(), args...)
	cmd.Env = goEnv()
	cmd.Dir = verifDir
	out, err := cmd.CombinedOutput()
	if err != nil {
		return nil, fmt.Errorf("go %s failed: %v\n%s", strings.Join(args, " "), err, out)
	}
	info.Seconds = time.Since(start).Seconds()
	return info, nil
}

// buildFalco builds the real falco binary from the working tree (C16).
func buildFalco(scratch string) (string, error) {
	// falco's own go.mod/go.sum copied so that /repo/go.mod is never rewritten.
	for _, f := range []string{"go.mod", "go.sum"} {
		b, err := os.ReadFile(filepath.Join(repoDir, f))
		if err != nil {
			return "", err
		}
		if err := os.WriteFile(filepath.Join(scratch, "falco."+f), b, 0o644); err != nil {
			return "", err
		}
	}
	// -modfile needs the name to end in .mod and finds the .sum beside it
	os.Rename(filepath.Join(scratch, "falco.go.mod"), filepath.Join(scratch, "falco.mod"))
	os.Rename(filepath.Join(scratch, "falco.go.sum"), filepath.Join(scratch, "falco.sum"))
	bin := filepath.Join(scratch, "falco")
	cmd := exec.Command(goBin(), "build", "-modfile="+filepath.Join(scratch, "falco.mod"), "-o", bin, "./cmd/falco")
	cmd.Env = goEnv()
	cmd.Dir = repoDir
	out, err := cmd.CombinedOutput()
	if err != nil {
		return "", fmt.Errorf("building falco failed: %v\n%s", err, out)
	}
	return bin, nil
}
