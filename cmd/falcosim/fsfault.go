package main

import (
	"fmt"
	"os"
	"time"
)

func runFsfault(id, tier string, seed uint64, scratch string, start time.Time) int {
	fmt.Fprintln(os.Stderr, "fsfault engine not built yet")
	return 2
}

func replayFsfault(rf ReplayFile, scratch, path string) int {
	fmt.Fprintln(os.Stderr, "fsfault engine not built yet")
	return 2
}
