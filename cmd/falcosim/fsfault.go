package main

import (
	"bytes"
	"encoding/json"
	"fmt"
	"os"
	"os/exec"
	"path/filepath"
	"runtime"
	"sort"
	"strings"
	"sync"
	"syscall"
	"time"

	"falcosim/sim/tape"
	"falcosim/sim/vclgen"
)

// ---------------------------------------------------------------------------
// C16 — `falco fmt -w` never damages the file it rewrites.
//
// System: the real falco binary built from the working tree, real files. The
// simulated part is the kernel's answer to each file-related system call:
// bin/faultrun (a ptrace supervisor) numbers the calls that touch the case
// directory in one global order and injects one fault at a chosen index.
// For every input the syscall × fault product is enumerated completely.
// ---------------------------------------------------------------------------

type fsInput struct {
	Class string            `json:"class"`
	Name  string            `json:"name"`
	Files map[string]string `json:"files"` // relative path → content
	Links map[string]string `json:"links"` // relative link → relative target
	Args  []string          `json:"args"`  // file arguments, relative to the case dir
	Mode  map[string]uint32 `json:"mode"`  // optional file modes
	// Sampled > 0: the fault product of this input is sampled (that many cases,
	// seeded) instead of enumerated, and the fault-free run is repeated Golden
	// times (an input of many files, whose product is large and whose runs may
	// legitimately differ in call order).
	// Canon: these files are replaced, before anything else, by what `falco fmt`
	// prints for them (so that they are already formatted whatever the
	// formatter's style is).
	Canon   []string `json:"canon,omitempty"`
	Sampled int      `json:"sampled,omitempty"`
	Golden  int      `json:"golden,omitempty"`
}

type fsFault struct {
	Kind  string `json:"kind"`  // inject | rlimit | perm | none
	Index int    `json:"index"` // inject
	Call  string `json:"call"`  // golden syscall name at Index
	Fault string `json:"fault"` // errno:X | kill | short:N
	Limit int64  `json:"limit"` // rlimit
	Perm  string `json:"perm"`  // file-ro | dir-ro | both-ro
}

func (f fsFault) String() string {
	switch f.Kind {
	case "inject":
		return fmt.Sprintf("%s#%d:%s", f.Call, f.Index, f.Fault)
	case "rlimit":
		return fmt.Sprintf("RLIMIT_FSIZE=%d", f.Limit)
	case "perm":
		return "perm:" + f.Perm
	}
	return "none"
}

type frEvent struct {
	Index    int      `json:"index"`
	Tid      int      `json:"tid"`
	Name     string   `json:"name"`
	Paths    []string `json:"paths"`
	Ret      int64    `json:"ret"`
	Injected string   `json:"injected"`
}
type frLog struct {
	Events     []frEvent `json:"events"`
	ExitCode   int       `json:"exit_code"`
	Signaled   bool      `json:"signaled"`
	InjectedAt int       `json:"injected_at"`
	Error      string    `json:"error"`
}

var faultsFor = map[string][]string{
	"openat":          {"errno:EACCES", "errno:ENOSPC", "errno:EROFS", "errno:EMFILE", "errno:ENOENT", "errno:EINTR"},
	"open":            {"errno:EACCES", "errno:ENOSPC"},
	"creat":           {"errno:EACCES", "errno:ENOSPC"},
	"read":            {"errno:EIO"},
	"pread64":         {"errno:EIO"},
	"write":           {"errno:ENOSPC", "errno:EIO", "errno:EDQUOT", "errno:EFBIG"},
	"pwrite64":        {"errno:ENOSPC", "errno:EIO"},
	"writev":          {"errno:ENOSPC"},
	"fsync":           {"errno:EIO", "errno:ENOSPC"},
	"fdatasync":       {"errno:EIO"},
	"close":           {"errno:EIO"},
	"rename":          {"errno:EXDEV", "errno:EACCES", "errno:ENOSPC"},
	"renameat":        {"errno:EXDEV", "errno:EACCES", "errno:ENOSPC"},
	"renameat2":       {"errno:EXDEV", "errno:EACCES", "errno:ENOSPC"},
	"unlink":          {"errno:EACCES"},
	"unlinkat":        {"errno:EACCES"},
	"fchmod":          {"errno:EPERM"},
	"fchmodat":        {"errno:EPERM"},
	"fchmodat2":       {"errno:EPERM"},
	"chmod":           {"errno:EPERM"},
	"ftruncate":       {"errno:EIO"},
	"truncate":        {"errno:EIO"},
	"newfstatat":      {"errno:EACCES"},
	"fstat":           {"errno:EIO"},
	"statx":           {"errno:EACCES"},
	"lstat":           {"errno:EACCES"},
	"stat":            {"errno:EACCES"},
	"readlinkat":      {"errno:EACCES"},
	"readlink":        {"errno:EACCES"},
	"fallocate":       {"errno:ENOSPC"},
	"copy_file_range": {"errno:ENOSPC", "errno:EXDEV"},
	"sendfile":        {"errno:EIO"},
	"link":            {"errno:EEXIST"},
	"linkat":          {"errno:EEXIST"},
}

// calls that never change or decide anything about file content
var skipCalls = map[string]bool{"fcntl": true, "lseek": true, "getdents64": true, "faccessat": true, "faccessat2": true}

type fsEngine struct {
	falco, faultrun string
	root            string // scratch/cases
	mu              sync.Mutex
	runs            int
	distinct        map[string]struct{}
	faults          map[string]int
	probes          map[string]int
	found           map[string]*ReplayFile
	foundCount      map[string]int
	drift           int
	samples         []any
	nextDir         int
	infra           string
	altExp          []byte // what `falco fmt` prints for altSrc
	altByInput      map[string][]byte
}

// altSrc is what the user's file holds when falco fmt -w is run again after a
// crashed or failed run: a different and shorter program, so that anything the
// earlier run left behind and the later run reuses shows in the result.
const altSrc = "sub vcl_recv {\n   set req.http.Again =   \"1\";\n}\n"

func (e *fsEngine) initAlt() error {
	in := &fsInput{Class: "decl", Name: "alt", Files: map[string]string{"alt.vcl": altSrc}, Args: []string{"alt.vcl"}}
	exp, err := e.expectedFor(in)
	if err != nil {
		return err
	}
	if exp["alt.vcl"] == nil {
		return fmt.Errorf("falco fmt fails on the follow-up program")
	}
	e.altExp = exp["alt.vcl"]
	return nil
}

// altExpFor is what `falco fmt` prints for altSrc in the directory of this
// input: a project configuration file there changes the formatted text.
func (e *fsEngine) altExpFor(in *fsInput) []byte {
	if _, ok := in.Files[".falco.yaml"]; !ok {
		return e.altExp
	}
	e.mu.Lock()
	if b, ok := e.altByInput[in.Name]; ok {
		e.mu.Unlock()
		return b
	}
	e.mu.Unlock()
	alt := &fsInput{Class: in.Class, Name: in.Name + "+alt", Files: map[string]string{"alt.vcl": altSrc, ".falco.yaml": in.Files[".falco.yaml"]}, Args: []string{"alt.vcl"}}
	var b []byte
	if exp, err := e.expectedFor(alt); err == nil {
		b = exp["alt.vcl"]
	}
	e.mu.Lock()
	if e.altByInput == nil {
		e.altByInput = map[string][]byte{}
	}
	e.altByInput[in.Name] = b
	e.mu.Unlock()
	return b
}

func (e *fsEngine) newCaseDir() string {
	e.mu.Lock()
	e.nextDir++
	n := e.nextDir
	e.mu.Unlock()
	d := filepath.Join(e.root, fmt.Sprintf("c%06d", n))
	os.MkdirAll(d, 0o755)
	os.Chmod(d, 0o755)
	return d
}

func materialise(dir string, in *fsInput) error {
	for name, content := range in.Files {
		p := filepath.Join(dir, name)
		os.MkdirAll(filepath.Dir(p), 0o755)
		mode := os.FileMode(0o644)
		if m, ok := in.Mode[name]; ok {
			mode = os.FileMode(m)
		}
		if err := os.WriteFile(p, []byte(content), mode); err != nil {
			return err
		}
		os.Chmod(p, mode)
	}
	for link, target := range in.Links {
		if err := os.Symlink(target, filepath.Join(dir, link)); err != nil {
			return err
		}
	}
	return nil
}

func runCmd(dir string, timeout time.Duration, name string, args ...string) (stdout, stderr []byte, exit int, killed bool, err error) {
	cmd := exec.Command(name, args...)
	cmd.Dir = dir
	cmd.Env = append(os.Environ(), "NO_COLOR=1", "HOME="+dir, "CI=")
	var so, se bytes.Buffer
	cmd.Stdout, cmd.Stderr = &so, &se
	cmd.SysProcAttr = &syscall.SysProcAttr{Setpgid: true}
	if err = cmd.Start(); err != nil {
		return
	}
	done := make(chan error, 1)
	go func() { done <- cmd.Wait() }()
	select {
	case werr := <-done:
		if werr != nil {
			if ee, ok := werr.(*exec.ExitError); ok {
				exit = ee.ExitCode()
				if ws, ok := ee.Sys().(syscall.WaitStatus); ok && ws.Signaled() {
					killed = true
					exit = 128 + int(ws.Signal())
				}
			} else {
				err = werr
			}
		}
	case <-time.After(timeout):
		syscall.Kill(-cmd.Process.Pid, syscall.SIGKILL)
		<-done
		err = fmt.Errorf("timeout after %v", timeout)
	}
	return so.Bytes(), se.Bytes(), exit, killed, err
}

// expectedFor: what `falco fmt FILE` prints for each file (nil when it fails).
func (e *fsEngine) expectedFor(in *fsInput) (map[string][]byte, error) {
	exp := map[string][]byte{}
	dir := e.newCaseDir()
	defer os.RemoveAll(dir)
	if err := materialise(dir, in); err != nil {
		return nil, err
	}
	for name := range in.Files {
		so, _, exit, killed, err := runCmd(dir, 60*time.Second, e.falco, "fmt", name)
		if err != nil {
			return nil, fmt.Errorf("falco fmt %s: %v", name, err)
		}
		if exit == 0 && !killed {
			exp[name] = so
		} else {
			exp[name] = nil
		}
	}
	return exp, nil
}

type fsOutcome struct {
	rerun       bool // the violation was seen after the follow-up run
	exit        int
	killedBy    string // "" | "injected-kill" | "signal"
	log         *frLog
	stderr      string
	violation   string // "" or description
	vfile       string
	stray       int
	contentLost bool
}

// execFault runs `falco fmt -w args…` on a pristine copy under one fault and
// evaluates the oracle.
func (e *fsEngine) execFault(in *fsInput, exp map[string][]byte, f fsFault) (*fsOutcome, error) {
	dir := e.newCaseDir()
	defer func() {
		// restore permissions so that the directory can be removed
		filepath.Walk(dir, func(p string, info os.FileInfo, err error) error {
			if err == nil {
				os.Chmod(p, 0o755)
			}
			return nil
		})
		os.RemoveAll(dir)
	}()
	if err := materialise(dir, in); err != nil {
		return nil, err
	}
	out := &fsOutcome{}
	args := append([]string{"fmt", "-w"}, in.Args...)
	var se []byte
	var err error
	switch f.Kind {
	case "none", "inject":
		logPath := filepath.Join(e.root, fmt.Sprintf("log-%s.json", filepath.Base(dir)))
		defer os.Remove(logPath)
		fa := []string{"-root", dir, "-log", logPath}
		if f.Kind == "inject" {
			fa = append(fa, "-index", fmt.Sprint(f.Index), "-fault", f.Fault)
		}
		fa = append(fa, "--", e.falco)
		fa = append(fa, args...)
		var exit int
		_, se, exit, _, err = runCmd(dir, 120*time.Second, e.faultrun, fa...)
		if err != nil {
			return nil, err
		}
		if exit != 0 {
			return nil, fmt.Errorf("faultrun failed (%d): %s", exit, se)
		}
		b, rerr := os.ReadFile(logPath)
		if rerr != nil {
			return nil, rerr
		}
		var lg frLog
		if jerr := json.Unmarshal(b, &lg); jerr != nil {
			return nil, jerr
		}
		out.log = &lg
		out.exit = lg.ExitCode
		if lg.Signaled {
			out.killedBy = "signal"
			if f.Fault == "kill" && lg.InjectedAt == f.Index {
				out.killedBy = "injected-kill"
			}
		}
	case "rlimit":
		pa := append([]string{fmt.Sprintf("--fsize=%d", f.Limit), e.falco}, args...)
		var killed bool
		_, se, out.exit, killed, err = runCmd(dir, 120*time.Second, "prlimit", pa...)
		if err != nil {
			return nil, err
		}
		if killed {
			out.killedBy = "signal"
		}
	case "perm":
		for name := range in.Files {
			p := filepath.Join(dir, name)
			if f.Perm == "file-ro" || f.Perm == "both-ro" {
				os.Chmod(p, 0o444)
			}
		}
		if f.Perm == "dir-ro" || f.Perm == "both-ro" {
			filepath.Walk(dir, func(p string, info os.FileInfo, err error) error {
				if err == nil && info.IsDir() {
					os.Chmod(p, 0o555)
				}
				return nil
			})
		}
		pa := append([]string{"--reuid=65534", "--regid=65534", "--clear-groups", e.falco}, args...)
		var killed bool
		_, se, out.exit, killed, err = runCmd(dir, 120*time.Second, "setpriv", pa...)
		if err != nil {
			return nil, err
		}
		if killed {
			out.killedBy = "signal"
		}
	}
	out.stderr = string(se)
	// ---- the oracle: exactly the statement ---------------------------------
	single := len(in.Args) == 1
	names := make([]string, 0, len(in.Files))
	for n := range in.Files {
		names = append(names, n)
	}
	sort.Strings(names)
	for _, name := range names {
		orig := []byte(in.Files[name])
		got, rerr := os.ReadFile(filepath.Join(dir, name))
		if rerr != nil {
			if f.Kind == "perm" {
				// read it back as root
				got, rerr = os.ReadFile(filepath.Join(dir, name))
			}
			if rerr != nil {
				out.violation = fmt.Sprintf("file %s cannot be read back after the run: %v", name, rerr)
				out.vfile = name
				break
			}
		}
		isOrig := bytes.Equal(got, orig)
		isExp := exp[name] != nil && bytes.Equal(got, exp[name])
		if !isOrig && !isExp && e.styleChangedByConfigFault(in, name, f, out, got) {
			// The fault landed on the discovery or reading of the project's
			// configuration file, and `falco fmt FILE` meeting the same fault
			// prints exactly these bytes: -w wrote what fmt prints in the
			// environment the fault creates. Which configuration applies when the
			// file cannot be examined is not this property's subject.
			e.mu.Lock()
			e.probes["configuration_fault_changed_style_for_fmt_and_fmt_w_alike"]++
			e.mu.Unlock()
			continue
		}
		if !isOrig && !isExp {
			out.violation = fmt.Sprintf("after the run %s holds %d bytes that are neither its original %d bytes nor the %s text of `falco fmt` (exit=%d %s)", name, len(got), len(orig), expDesc(exp[name]), out.exit, out.killedBy)
			out.vfile = name
			break
		}
		// The statement names statement-only snippets as a kind the formatter does
		// not handle. Should a run nevertheless succeed and rewrite such a file,
		// it must at least not lose statements: every `;` of the input survives.
		if in.Class == "snippet" && !isOrig && strings.Count(string(got), ";") < strings.Count(string(orig), ";") {
			out.violation = fmt.Sprintf("statement-only snippet %s was rewritten (exit=%d) and lost statements: %d `;` before, %d after; the file now holds %q", name, out.exit, strings.Count(string(orig), ";"), strings.Count(string(got), ";"), clipS(string(got), 80))
			out.vfile = name
			out.contentLost = true
			break
		}
		failed := out.exit != 0 && out.killedBy != "injected-kill"
		if single && failed && !isOrig {
			out.violation = fmt.Sprintf("the command failed (exit=%d %s) but %s was modified (it now holds the formatted text)", out.exit, out.killedBy, name)
			out.vfile = name
			break
		}
	}
	// stray temporary files are noted, not violations
	filepath.Walk(dir, func(p string, info os.FileInfo, err error) error {
		if err != nil || info.IsDir() {
			return nil
		}
		rel, _ := filepath.Rel(dir, p)
		if _, ok := in.Files[rel]; ok {
			return nil
		}
		if _, ok := in.Links[rel]; ok {
			return nil
		}
		out.stray++
		return nil
	})
	// ---- history: the user runs the command again ----------------------------
	// After a crashed or failed run the directory is what the next run starts
	// from (left-over temporary files included). The user has meanwhile edited
	// the file; the statement holds for that run like for any other.
	if out.violation == "" && e.altExp != nil && f.Kind == "inject" && (out.killedBy == "injected-kill" || out.stray > 0) {
		pre := map[string][]byte{}
		isArg := map[string]bool{}
		for _, a := range in.Args {
			target := a
			if l, ok := in.Links[a]; ok {
				target = l
			}
			isArg[target] = true
		}
		for _, name := range names {
			p := filepath.Join(dir, name)
			if isArg[name] {
				if werr := os.WriteFile(p, []byte(altSrc), 0o644); werr != nil {
					return nil, werr
				}
				pre[name] = []byte(altSrc)
			} else {
				pre[name], _ = os.ReadFile(p)
			}
		}
		_, se2, exit2, killed2, rerr := runCmd(dir, 120*time.Second, e.falco, args...)
		if rerr != nil {
			return nil, rerr
		}
		e.mu.Lock()
		e.probes["rerun_after_crashed_or_failed_run"]++
		e.mu.Unlock()
		for _, name := range names {
			got, rerr := os.ReadFile(filepath.Join(dir, name))
			if rerr != nil {
				out.violation = fmt.Sprintf("file %s cannot be read back after the second run: %v", name, rerr)
				out.vfile, out.rerun = name, true
				break
			}
			want := exp[name]
			if isArg[name] {
				want = e.altExpFor(in)
			}
			if !bytes.Equal(got, pre[name]) && !(want != nil && bytes.Equal(got, want)) {
				out.violation = fmt.Sprintf("a first run was stopped by the fault; the file was then edited (%d bytes) and `falco fmt -w` run again without any fault (exit=%d killed=%v): %s now holds %d bytes that are neither what it held before that run nor the %s text of `falco fmt`; it ends %q", len(pre[name]), exit2, killed2, name, len(got), expDesc(want), clipTail(string(got), 60))
				out.vfile, out.rerun = name, true
				out.stderr += "\nsecond run: " + string(se2)
				break
			}
		}
	}
	return out, nil
}

// styleChangedByConfigFault: the injected fault hit a call on the project's
// .falco.yaml / .falco.yml, the command did not fail, and `falco fmt name` run
// under the same fault (same call, same path) prints got.
func (e *fsEngine) styleChangedByConfigFault(in *fsInput, name string, f fsFault, out *fsOutcome, got []byte) bool {
	if f.Kind != "inject" || f.Fault == "kill" || out.log == nil || out.exit != 0 || out.killedBy != "" {
		return false
	}
	isConf := func(ev frEvent) bool {
		for _, p := range ev.Paths {
			if b := filepath.Base(p); b == ".falco.yaml" || b == ".falco.yml" {
				return true
			}
		}
		return false
	}
	var hit *frEvent
	for i := range out.log.Events {
		if out.log.Events[i].Injected != "" {
			hit = &out.log.Events[i]
			break
		}
	}
	if hit == nil || !isConf(*hit) {
		return false
	}
	dir := e.newCaseDir()
	defer os.RemoveAll(dir)
	if err := materialise(dir, in); err != nil {
		return false
	}
	logPath := filepath.Join(e.root, fmt.Sprintf("log-%s.json", filepath.Base(dir)))
	defer os.Remove(logPath)
	so, _, exit, _, err := runCmd(dir, 120*time.Second, e.faultrun, "-root", dir, "-log", logPath, "-index", fmt.Sprint(f.Index), "-fault", f.Fault, "--", e.falco, "fmt", name)
	if err != nil || exit != 0 {
		return false
	}
	b, err := os.ReadFile(logPath)
	if err != nil {
		return false
	}
	var lg frLog
	if json.Unmarshal(b, &lg) != nil || lg.ExitCode != 0 || lg.Signaled {
		return false
	}
	for _, ev := range lg.Events {
		if ev.Injected != "" {
			return ev.Name == hit.Name && isConf(ev) && bytes.Equal(so, got)
		}
	}
	return false
}

func clipTail(s string, n int) string {
	if len(s) > n {
		return s[len(s)-n:]
	}
	return s
}

func expDesc(b []byte) string {
	if b == nil {
		return "(none: fmt fails)"
	}
	return fmt.Sprintf("%d-byte", len(b))
}

func (e *fsEngine) record(in *fsInput, f fsFault, o *fsOutcome, seed uint64, tier string) {
	e.mu.Lock()
	defer e.mu.Unlock()
	e.runs++
	sig := in.Class + "|" + in.Name + "|" + f.String()
	if f.Kind != "none" {
		e.distinct[sig] = struct{}{}
	}
	switch f.Kind {
	case "inject":
		k := strings.SplitN(f.Fault, ":", 2)[0]
		if k == "errno" {
			k = f.Fault
		}
		e.faults[f.Call+":"+k]++
	case "rlimit":
		e.faults["rlimit_fsize"]++
	case "perm":
		e.faults["perm:"+f.Perm]++
	}
	if o.stray > 0 {
		e.probes["stray_temp_file_left"]++
	}
	if o.exit != 0 {
		e.probes["command_reported_failure"]++
	} else {
		e.probes["command_reported_success"]++
	}
	if o.killedBy == "injected-kill" {
		e.probes["crashed_at_fault_point"]++
	}
	if o.violation != "" {
		fk := f.Fault
		if f.Kind == "inject" && strings.HasPrefix(fk, "short:") {
			fk = "short"
		}
		var key string
		switch {
		case o.contentLost:
			key = "C16/damaged:snippet:content-lost"
		case o.rerun:
			key = fmt.Sprintf("C16/damaged:%s:rerun-after:%s:%s", in.Class, f.Call, fk)
		}
		switch {
		case key != "":
		case f.Kind == "inject":
			key = fmt.Sprintf("C16/damaged:%s:%s:%s", in.Class, f.Call, fk)
		case f.Kind == "rlimit":
			key = fmt.Sprintf("C16/damaged:%s:rlimit_fsize", in.Class)
		case f.Kind == "perm":
			key = fmt.Sprintf("C16/damaged:%s:perm:%s", in.Class, f.Perm)
		default:
			key = fmt.Sprintf("C16/damaged:%s:fault-free", in.Class)
		}
		e.foundCount[key]++
		if _, ok := e.found[key]; !ok {
			var events any
			if o.log != nil {
				events = o.log.Events
			}
			e.found[key] = &ReplayFile{Property: "C16", Engine: "fsfault", Tier: tier, Seed: seed,
				Violation: Violation{Oracle: "C16/file-intact-or-formatted", Key: key, Detail: fmt.Sprintf("%s\ninput %s (%s), fault %s\nstderr: %s", o.violation, in.Name, in.Class, f.String(), tail(o.stderr, 600))},
				Extra:     map[string]any{"input": in, "fault": f}, Rendering: map[string]any{"syscalls": events}}
		}
	}
}

func runFsfault(id, tier string, seed uint64, scratch string, start time.Time) int {
	falco, err := buildFalco(scratch)
	if err != nil {
		fmt.Fprintln(os.Stderr, "falcosim:", err)
		return 2
	}
	os.Chmod(scratch, 0o755)
	e := &fsEngine{falco: falco, faultrun: filepath.Join(verifDir, "bin", "faultrun"), root: filepath.Join(scratch, "cases"),
		distinct: map[string]struct{}{}, faults: map[string]int{}, probes: map[string]int{}, found: map[string]*ReplayFile{}, foundCount: map[string]int{}}
	os.MkdirAll(e.root, 0o755)
	os.Chmod(e.root, 0o755)
	os.Chmod(falco, 0o755)
	inputs := fsInputs(tier, seed)
	fmt.Printf("falcosim: falco built from %s working tree; %d inputs\n", repoDir, len(inputs))
	if err := e.initAlt(); err != nil {
		fmt.Fprintln(os.Stderr, "falcosim:", err)
		return 2
	}
	for _, in := range inputs {
		if len(in.Canon) == 0 {
			continue
		}
		exp0, err := e.expectedFor(in)
		if err != nil {
			fmt.Fprintln(os.Stderr, "falcosim:", err)
			return 2
		}
		for _, n := range in.Canon {
			if exp0[n] != nil {
				in.Files[n] = string(exp0[n])
			}
		}
		in.Canon = nil // the replay file carries the contents as they were used
	}

	type job struct {
		in  *fsInput
		exp map[string][]byte
		f   fsFault
	}
	jobs := make(chan job, 1024)
	var wg sync.WaitGroup
	workers := envInt("FALCOSIM_WORKERS", runtime.NumCPU())
	for w := 0; w < workers; w++ {
		wg.Add(1)
		go func() {
			defer wg.Done()
			for j := range jobs {
				var o, last *fsOutcome
				var err error
				for attempt := 0; attempt < 3; attempt++ {
					o, err = e.execFault(j.in, j.exp, j.f)
					if err != nil {
						break
					}
					last = o
					if j.f.Kind == "inject" {
						ok := o.log.InjectedAt == j.f.Index
						if ok {
							for _, ev := range o.log.Events {
								if ev.Index == j.f.Index && ev.Name != j.f.Call {
									ok = false
								}
							}
						}
						if strings.HasPrefix(j.f.Fault, "short:") && o.log.InjectedAt == -1 {
							ok = true // write was already shorter than N: nothing to cut
							e.mu.Lock()
							e.probes["short_not_applicable"]++
							e.mu.Unlock()
						}
						if !ok {
							e.mu.Lock()
							e.drift++
							e.mu.Unlock()
							o = nil
							continue
						}
					}
					break
				}
				if err != nil {
					e.mu.Lock()
					e.infra = fmt.Sprintf("input %s fault %s: %v", j.in.Name, j.f, err)
					e.mu.Unlock()
					continue
				}
				if o == nil {
					// The run's call order differs from the reference run's (a command
					// that works on several files at once is free to do that). The
					// fault still hit some call of this run, or none; the oracle does
					// not depend on which, so the run is judged as it happened.
					o = last
					e.mu.Lock()
					e.probes["fault_landed_on_another_call"]++
					e.mu.Unlock()
				}
				e.record(j.in, j.f, o, seed, tier)
			}
		}()
	}

	productSize, sampledInputs := 0, 0
	for i := range inputs {
		in := inputs[i]
		exp, err := e.expectedFor(in)
		if err != nil {
			fmt.Fprintln(os.Stderr, "falcosim:", err)
			return 2
		}
		// golden trace
		g, err := e.execFault(in, exp, fsFault{Kind: "none"})
		if err != nil {
			fmt.Fprintln(os.Stderr, "falcosim: golden run failed:", err)
			return 2
		}
		e.record(in, fsFault{Kind: "none"}, g, seed, tier)
		var sampleFaults []string
		var product []fsFault
		maxWrite := int64(0)
		for _, ev := range g.log.Events {
			if skipCalls[ev.Name] {
				continue
			}
			fl := append([]string{}, faultsFor[ev.Name]...)
			fl = append(fl, "kill")
			if ev.Name == "write" || ev.Name == "pwrite64" {
				if ev.Ret > 1 {
					fl = append(fl, "short:1", fmt.Sprintf("short:%d", ev.Ret/2), fmt.Sprintf("short:%d", ev.Ret-1))
				}
				if ev.Ret > maxWrite {
					maxWrite = ev.Ret
				}
			}
			for _, ft := range fl {
				product = append(product, fsFault{Kind: "inject", Index: ev.Index, Call: ev.Name, Fault: ft})
			}
		}
		if in.Sampled > 0 && in.Sampled < len(product) {
			sp := tape.New(seed, "C16-sampled", uint64(i), nil)
			pm := sp.Perm(len(product))
			var chosen []fsFault
			for _, k := range pm[:in.Sampled] {
				chosen = append(chosen, product[k])
			}
			product = chosen
			sampledInputs++
		}
		for _, ff := range product {
			jobs <- job{in, exp, ff}
			productSize++
			if len(sampleFaults) < 6 {
				sampleFaults = append(sampleFaults, ff.String())
			}
		}
		for k := 1; k < in.Golden; k++ {
			jobs <- job{in, exp, fsFault{Kind: "none"}}
		}
		// file-size limits: every L <= 64 in thorough, a few in quick
		var limits []int64
		if tier == "thorough" {
			for l := int64(0); l <= 64; l++ {
				limits = append(limits, l)
			}
			tp := tape.New(seed, "C16-limits", uint64(i), nil)
			for k := 0; k < 6 && maxWrite > 65; k++ {
				limits = append(limits, 65+int64(tp.Draw(int(maxWrite))))
			}
		} else {
			limits = []int64{0, 1, 10, 64}
			if maxWrite > 130 {
				limits = append(limits, maxWrite/2, maxWrite-1)
			}
		}
		for _, l := range limits {
			jobs <- job{in, exp, fsFault{Kind: "rlimit", Limit: l}}
			productSize++
		}
		if len(in.Links) == 0 {
			for _, p := range []string{"file-ro", "dir-ro", "both-ro"} {
				jobs <- job{in, exp, fsFault{Kind: "perm", Perm: p}}
				productSize++
			}
		}
		if len(e.samples) < 3 {
			var calls []string
			for _, ev := range g.log.Events {
				if !skipCalls[ev.Name] {
					p := ""
					if len(ev.Paths) > 0 {
						p = filepath.Base(ev.Paths[len(ev.Paths)-1])
					}
					calls = append(calls, fmt.Sprintf("%d:%s(%s)=%d", ev.Index, ev.Name, p, ev.Ret))
				}
			}
			e.samples = append(e.samples, map[string]any{"input": in.Name, "class": in.Class, "args": in.Args, "golden_exit": g.exit, "golden_file_syscalls": calls, "some_faults_injected": sampleFaults, "fsize_limits": limits})
		}
	}
	close(jobs)
	wg.Wait()
	if e.infra != "" {
		fmt.Fprintln(os.Stderr, "falcosim: fsfault machinery trouble:", e.infra)
		return 2
	}

	kf := loadFindings()
	knownHit := map[string]int{}
	var reported []string
	keys := make([]string, 0, len(e.found))
	for k := range e.found {
		keys = append(keys, k)
	}
	sort.Strings(keys)
	for _, k := range keys {
		if kf.known(id, k) != nil {
			knownHit[k] += e.foundCount[k]
			continue
		}
		rf := e.found[k]
		rf.RepoHead, rf.RepoDirty = repoHead(), repoStatus() != ""
		path := writeReplay(*rf)
		reported = append(reported, fmt.Sprintf("VIOLATION property=%s replay=%s", id, path))
		fmt.Printf("falcosim: %s x%d — %s\n", k, e.foundCount[k], firstLine(rf.Violation.Detail))
	}
	wall := time.Since(start).Seconds()
	cov := map[string]any{
		"evaluations":         e.runs,
		"distinct_nontrivial": len(e.distinct),
		"rule":                props[id].Rule,
		"samples":             e.samples,
		"exhaustive":          true,
		"exhaustive_note":     fmt.Sprintf("for each of the %d inputs of this run (except the %d many-file inputs, whose product is sampled), every file-related syscall of the golden trace × every errno of its set × crash-before × short-write points, plus the listed RLIMIT_FSIZE values and the permission matrix: %d fault cases, all executed; every crashed run and every run that left a temporary file behind is followed by a fault-free second run on the edited file", len(inputs), sampledInputs, productSize),
		"inputs":              len(inputs),
		"runs_per_hour":       int(float64(e.runs) / wall * 3600),
		"faults_fired":        e.faults,
		"probes":              e.probes,
		"retries_after_drift": e.drift,
		"components":          components(id),
		"known_findings_hit":  knownHit,
		"violation_keys":      keys,
		"repo_head":           repoHead(),
		"repo_dirty":          repoStatus() != "",
	}
	writeEvidence(id, tier, seed, props[id].Level, cov, wall, len(reported))
	for _, f := range kf.forProperty(id) {
		if f.Status == "known" {
			fmt.Printf("KNOWN-FINDING: property=%s key=%s %s (observed %d times in this run)\n", id, f.Key, f.What, knownHit[f.Key])
		}
	}
	fmt.Printf("falcosim: C16 %s: %d inputs, %d runs (%d fault cases), %d distinct faults injected, %.1fs wall\n", tier, len(inputs), e.runs, productSize, len(e.distinct), wall)
	if len(reported) > 0 {
		for _, l := range reported {
			fmt.Println(l)
		}
		return 1
	}
	return 0
}

func replayFsfault(rf ReplayFile, scratch, path string) int {
	falco, err := buildFalco(scratch)
	if err != nil {
		fmt.Fprintln(os.Stderr, "falcosim:", err)
		return 2
	}
	os.Chmod(scratch, 0o755)
	e := &fsEngine{falco: falco, faultrun: filepath.Join(verifDir, "bin", "faultrun"), root: filepath.Join(scratch, "cases"),
		distinct: map[string]struct{}{}, faults: map[string]int{}, probes: map[string]int{}, found: map[string]*ReplayFile{}, foundCount: map[string]int{}}
	os.MkdirAll(e.root, 0o755)
	os.Chmod(e.root, 0o755)
	b, _ := json.Marshal(rf.Extra)
	var ex struct {
		Input fsInput `json:"input"`
		Fault fsFault `json:"fault"`
	}
	if err := json.Unmarshal(b, &ex); err != nil {
		fmt.Fprintln(os.Stderr, "bad replay file:", err)
		return 2
	}
	if err := e.initAlt(); err != nil {
		fmt.Fprintln(os.Stderr, err)
		return 2
	}
	exp, err := e.expectedFor(&ex.Input)
	if err != nil {
		fmt.Fprintln(os.Stderr, err)
		return 2
	}
	o, err := e.execFault(&ex.Input, exp, ex.Fault)
	if err != nil {
		fmt.Fprintln(os.Stderr, err)
		return 2
	}
	if o.violation != "" {
		fmt.Printf("reproduced: %s\n%s\nfault %s, exit=%d %s\nstderr: %s\n", rf.Violation.Key, o.violation, ex.Fault, o.exit, o.killedBy, tail(o.stderr, 600))
		if o.log != nil {
			for _, ev := range o.log.Events {
				fmt.Printf("   %d %s %v = %d %s\n", ev.Index, ev.Name, ev.Paths, ev.Ret, ev.Injected)
			}
		}
		fmt.Printf("VIOLATION property=C16 replay=%s\n", path)
		return 1
	}
	fmt.Println("not reproduced: the file is intact or holds the formatted text under this fault")
	return 0
}

// ---- inputs ---------------------------------------------------------------

func fsInputs(tier string, seed uint64) []*fsInput {
	var ins []*fsInput
	add := func(class, name string, files map[string]string, args []string) *fsInput {
		in := &fsInput{Class: class, Name: name, Files: files, Args: args}
		ins = append(ins, in)
		return in
	}
	decl := "sub vcl_recv {\n#FASTLY RECV\n   set req.http.X = \"a\"   \"b\";\n  if(req.http.Y){ esi; }\n      return(lookup);\n}\n\nacl a1 { \"10.0.0.0\"/8; }\n"
	add("decl", "hand/decl", map[string]string{"a.vcl": decl}, []string{"a.vcl"})
	add("decl", "hand/switch", map[string]string{"a.vcl": "sub vcl_recv {\n  switch (req.http.X) {\n      case \"a\":\n   set req.http.Y = \"1\";\n        break;\n  case ~ \"^b\":\n      esi;\n      fallthrough;\n    default:\n  set req.http.Y = \"d\";\n       break;\n  }\n    if (req.http.Z) {\n switch (req.http.Z) {\n case \"1\": break;\n default: break;\n }\n }\n}\n"}, []string{"a.vcl"})
	add("formatted", "hand/formatted", map[string]string{"a.vcl": "sub vcl_recv {\n  #FASTLY RECV\n  esi;\n}\n"}, []string{"a.vcl"})
	add("snippet", "hand/snippet", map[string]string{"a.vcl": "set req.http.X = \"a\";\nif (req.http.Y) { esi; }\n"}, []string{"a.vcl"})
	add("invalid", "hand/invalid", map[string]string{"a.vcl": "sub vcl_recv { set req.http.X = ; }\n"}, []string{"a.vcl"})
	add("empty", "hand/empty", map[string]string{"a.vcl": ""}, []string{"a.vcl"})
	add("nonl", "hand/no-trailing-newline", map[string]string{"a.vcl": strings.TrimRight(decl, "\n")}, []string{"a.vcl"})
	add("fmtcrash", "hand/error-bare", map[string]string{"a.vcl": "sub vcl_recv {\n  error;\n}\n"}, []string{"a.vcl"})
	for _, n := range []int{239, 245, 250, 251} { // base name lengths around what still leaves room for a temporary sibling (NAME_MAX 255)
		name := strings.Repeat("n", n-4) + ".vcl"
		add("longname", fmt.Sprintf("hand/name-%d-bytes", n), map[string]string{name: decl}, []string{name})
	}
	var big strings.Builder
	for i := 0; big.Len() < 1<<20; i++ {
		fmt.Fprintf(&big, "sub s%d {\n set req.http.X%d =   \"v\" req.http.Y;\n  if (req.http.Z ~ \"^/a\") { esi; }\n}\n", i, i)
	}
	add("big", "hand/1MiB", map[string]string{"a.vcl": big.String()}, []string{"a.vcl"})
	sl := add("symlink", "hand/symlink", map[string]string{"real/target.vcl": decl}, []string{"link.vcl"})
	sl.Links = map[string]string{"link.vcl": "real/target.vcl"}
	add("multi", "hand/three-files-middle-invalid", map[string]string{"a.vcl": decl, "b.vcl": "sub vcl_recv { set = ; }\n", "c.vcl": decl + "\nbackend F_x { .host = \"h\"; }\n"}, []string{"a.vcl", "b.vcl", "c.vcl"})

	// one invocation on files in different states: already formatted, not formatted, formatted again, a snippet, …
	fmtd := "sub vcl_recv {\n  #FASTLY RECV\n  esi;\n}\n"
	add("mixed", "hand/formatted-then-unformatted", map[string]string{"a.vcl": fmtd, "b.vcl": decl, "c.vcl": fmtd, "d.vcl": decl + "\nbackend F_y { .host = \"y\"; }\n"}, []string{"a.vcl", "b.vcl", "c.vcl", "d.vcl"}).Canon = []string{"a.vcl", "c.vcl"}
	add("mixed", "hand/unformatted-then-formatted", map[string]string{"a.vcl": decl, "b.vcl": fmtd, "c.vcl": "", "d.vcl": fmtd}, []string{"a.vcl", "b.vcl", "c.vcl", "d.vcl"}).Canon = []string{"b.vcl", "d.vcl"}
	add("formatted", "hand/canonical", map[string]string{"a.vcl": decl}, []string{"a.vcl"}).Canon = []string{"a.vcl"}
	// a functional subroutine; a project configuration that differs from the defaults; files of one
	// invocation that share a long compound condition at different nesting depths
	fn := "sub is_ok(STRING var.s)    BOOL {\n      return var.s ==   \"ok\";\n}\nsub vcl_recv {\n if(is_ok(req.http.X)){ esi; }\n}\n"
	add("decl", "hand/functional-sub", map[string]string{"a.vcl": fn}, []string{"a.vcl"})
	add("config", "hand/with-project-config", map[string]string{"a.vcl": decl, ".falco.yaml": "format:\n  indent_width: 4\n  line_width: 60\n  indent_case_labels: true\n  comment_style: sharp\n"}, []string{"a.vcl"})
	cond := "req.http.Alpha-Header == \"alpha-value\" && req.http.Beta-Header == \"beta-value\" || req.http.Gamma-Header ~ \"^gamma-value\" && req.http.Delta-Header != \"delta-value\""
	shallow := "sub vcl_recv {\n  if (" + cond + ") {\n esi;\n  }\n}\n"
	deep := "sub vcl_recv {\n  if (req.http.A) {\n    if (req.http.B) {\n      if (req.http.C) {\n        if (" + cond + ") {\n esi;\n        }\n      }\n    }\n  }\n}\n"
	add("mixed", "hand/same-condition-two-depths", map[string]string{"a.vcl": shallow, "b.vcl": deep, "c.vcl": shallow}, []string{"a.vcl", "b.vcl", "c.vcl"})
	// many files in one invocation, every one different in length and content
	many := map[string]string{}
	var margs []string
	for i := 0; i < 48; i++ {
		var b strings.Builder
		fmt.Fprintf(&b, "sub vcl_recv {\n   set req.http.File =   \"f%02d\";\n", i)
		for k := 0; k < 1+(i*7)%23; k++ {
			fmt.Fprintf(&b, "  if(req.http.K%d){ set req.http.V%d = \"%s\"; }\n", k, k, strings.Repeat(fmt.Sprintf("%02d", i), 1+k%5))
		}
		b.WriteString("}\n")
		n := fmt.Sprintf("f%02d.vcl", i)
		many[n] = b.String()
		margs = append(margs, n)
	}
	mi := add("many", "hand/48-files", many, margs)
	mi.Sampled, mi.Golden = 60, 6
	if tier == "thorough" {
		mi.Sampled, mi.Golden = 1500, 60
	}

	// repository examples (seeded order) and generated programs
	var files []string
	filepath.Walk(filepath.Join(repoDir, "examples"), func(p string, info os.FileInfo, err error) error {
		if err == nil && !info.IsDir() && strings.HasSuffix(p, ".vcl") && info.Size() < 64<<10 {
			files = append(files, p)
		}
		return nil
	})
	sort.Strings(files)
	tp := tape.New(seed, "C16-inputs", 0, nil)
	perm := tp.Perm(len(files))
	nRepo, nGen := 3, 3
	if tier == "thorough" {
		nRepo, nGen = len(files), 150
	}
	for i := 0; i < nRepo && i < len(files); i++ {
		b, err := os.ReadFile(files[perm[i]])
		if err != nil {
			continue
		}
		rel, _ := filepath.Rel(repoDir, files[perm[i]])
		add("decl", "repo/"+rel, map[string]string{"a.vcl": string(b)}, []string{"a.vcl"})
	}
	for i := 0; i < nGen; i++ {
		gt := tape.New(seed, "C16-gen", uint64(i), nil)
		o := vclgen.Default()
		o.Comments = gt.Bool(1, 2)
		if gt.Bool(1, 4) {
			add("snippet", fmt.Sprintf("gen/snippet-%d", i), map[string]string{"a.vcl": vclgen.Snippet(gt, o)}, []string{"a.vcl"})
		} else {
			add("decl", fmt.Sprintf("gen/program-%d", i), map[string]string{"a.vcl": vclgen.Program(gt, o)}, []string{"a.vcl"})
		}
	}
	return ins
}

func clipS(s string, n int) string {
	if len(s) > n {
		return s[:n]
	}
	return s
}
