package main

import (
	"bytes"
	"crypto/sha1"
	"encoding/json"
	"fmt"
	"os"
	"os/exec"
	"path/filepath"
	"regexp"
	"runtime"
	"sort"
	"strconv"
	"strings"
	"sync"
	"syscall"
	"time"
)

// --- mirrors of sim/worker types (the driver does not import falco) --------

type Violation struct {
	Oracle string `json:"oracle"`
	Key    string `json:"key"`
	Detail string `json:"detail"`
}

type Job struct {
	Mode      string   `json:"mode"`
	Property  string   `json:"property"`
	Tier      string   `json:"tier"`
	Seed      uint64   `json:"seed"`
	Worker    int      `json:"worker"`
	Workers   int      `json:"workers"`
	Out       string   `json:"out"`
	Crumb     string   `json:"crumb"`
	Deadline  int64    `json:"deadline_unix_ms"`
	Tape      []uint64 `json:"tape"`
	Key       string   `json:"key"`
	MaxCases  int      `json:"max_cases"`
	ShrinkN   int      `json:"shrink_budget"`
	StartCase int      `json:"start_case"`
	Recycle   int      `json:"recycle"`
	From      int      `json:"from"`
	To        int      `json:"to"`
}

type Found struct {
	Case      uint64      `json:"case"`
	Tape      []uint64    `json:"tape"`
	Violation Violation   `json:"violation"`
	All       []Violation `json:"all_violations,omitempty"`
	Count     int         `json:"count"`
	Rendering any         `json:"rendering,omitempty"`
	LogHash   string      `json:"log_hash,omitempty"`
	Events    []string    `json:"event_log,omitempty"`
}

type Out struct {
	Mode        string         `json:"mode"`
	Property    string         `json:"property"`
	Evaluations int            `json:"evaluations"`
	EnumTotal   int            `json:"enum_total"`
	EnumDone    int            `json:"enum_done"`
	SampledPlan int            `json:"sampled_plan"`
	SampledDone int            `json:"sampled_done"`
	Distinct    []uint64       `json:"distinct"`
	Faults      map[string]int `json:"faults"`
	Probes      map[string]int `json:"probes"`
	SimSeconds  float64        `json:"sim_seconds"`
	Found       []Found        `json:"found"`
	Samples     []any          `json:"samples"`
	LogHashes   []string       `json:"log_hashes,omitempty"`
	WallS       float64        `json:"wall_s"`
	Shrunk      *Found         `json:"shrunk,omitempty"`
	ShrinkRuns  int            `json:"shrink_runs,omitempty"`
	Error       string         `json:"error,omitempty"`
	ResumeAt    int            `json:"resume_at,omitempty"`
}

type ReplayFile struct {
	Property  string    `json:"property"`
	Engine    string    `json:"engine"`
	Tier      string    `json:"tier"`
	Seed      uint64    `json:"seed"`
	Case      uint64    `json:"case"`
	Tape      []uint64  `json:"tape"`
	Hang      bool      `json:"hang,omitempty"`
	Violation Violation `json:"violation"`
	LogHash   string    `json:"log_hash,omitempty"`
	Rendering any       `json:"rendering,omitempty"`
	Events    []string  `json:"event_log,omitempty"`
	Original  int       `json:"original_tape_len,omitempty"`
	Shrinks   int       `json:"shrink_runs,omitempty"`
	RepoHead  string    `json:"repo_head,omitempty"`
	RepoDirty bool      `json:"repo_dirty,omitempty"`
	Extra     any       `json:"extra,omitempty"`
	Phase     string    `json:"phase,omitempty"` // "netns": the worker ran in a network namespace without any address
}

// The environment phase of a check: extra environment and a command prefix for
// every worker started while it is set (C08's run on a host without any
// network address).
var (
	phaseEnv  []string
	phaseWrap []string
)

func setPhase(name string) {
	switch name {
	case "netns":
		phaseEnv, phaseWrap = []string{"FALCOSIM_C08_WORKLOAD=9"}, []string{"unshare", "-n"}
	default:
		phaseEnv, phaseWrap = nil, nil
	}
}

func netnsAvailable() bool { return exec.Command("unshare", "-n", "true").Run() == nil }

func jsonOrString(b []byte) any {
	var v any
	if json.Unmarshal(b, &v) == nil {
		return v
	}
	return string(b)
}

func seedFromEnv() uint64 {
	if s := os.Getenv("VERIF_SEED"); s != "" {
		if v, err := strconv.ParseInt(s, 10, 64); err == nil {
			return uint64(v)
		}
	}
	return 1
}

// runWorker runs one worker process on a job and returns its output.
// stuckAfter: kill the worker if its breadcrumb does not change for that long.
func runWorker(bin string, job Job, scratch string, stuckAfter, hardLimit time.Duration, extraEnv []string) (*Out, string, error) {
	tag := fmt.Sprintf("%s-%d-%d", job.Mode, job.Worker, time.Now().UnixNano())
	jobPath := filepath.Join(scratch, "job-"+tag+".json")
	job.Out = filepath.Join(scratch, "out-"+tag+".json")
	if job.Crumb == "" {
		job.Crumb = filepath.Join(scratch, "crumb-"+tag)
	}
	b, _ := json.Marshal(job)
	if err := os.WriteFile(jobPath, b, 0o644); err != nil {
		return nil, "", err
	}
	testCPU := "1"
	for _, e := range extraEnv {
		if strings.HasPrefix(e, "FALCOSIM_TESTCPU=") {
			testCPU = strings.TrimPrefix(e, "FALCOSIM_TESTCPU=")
		}
	}
	// The sandbox has no memory limit: cap the address space of a worker so that
	// an allocation bomb in code under test kills the worker (attributed through
	// the breadcrumb) instead of the machine. Not possible under -race (TSan
	// reserves terabytes of address space).
	wargs := []string{bin, "-test.run", "^TestWorker$", "-test.cpu", testCPU, "-test.timeout", "0", "-test.count", "1"}
	cmd := exec.Command(wargs[0], wargs[1:]...)
	if !strings.Contains(bin, ".race.") && envInt("FALCOSIM_MEM_MB", 6144) > 0 {
		cmd = exec.Command("prlimit", append([]string{"--as=" + strconv.FormatInt(int64(envInt("FALCOSIM_MEM_MB", 6144))<<20, 10)}, wargs...)...)
	}
	if len(phaseWrap) > 0 {
		cmd = exec.Command(phaseWrap[0], append(append([]string{}, phaseWrap[1:]...), cmd.Args...)...)
	}
	cmd.Env = append(os.Environ(), "FALCOSIM_JOB="+jobPath, "FALCOSIM_REPO="+repoDir)
	cmd.Env = append(cmd.Env, extraEnv...)
	cmd.Env = append(cmd.Env, phaseEnv...)
	cmd.Dir = scratch
	var log bytes.Buffer
	cmd.Stdout = &log
	cmd.Stderr = &log
	cmd.SysProcAttr = &syscall.SysProcAttr{Setpgid: true}
	if err := cmd.Start(); err != nil {
		return nil, "", err
	}
	done := make(chan error, 1)
	go func() { done <- cmd.Wait() }()
	start := time.Now()
	lastCrumb, lastChange := "", time.Now()
	tick := time.NewTicker(500 * time.Millisecond)
	defer tick.Stop()
	for {
		select {
		case err := <-done:
			ob, rerr := os.ReadFile(job.Out)
			if rerr != nil {
				c, _ := os.ReadFile(job.Crumb)
				return nil, strings.TrimSpace(string(c)), fmt.Errorf("worker died without output (%v); case=%s\n%s", err, strings.TrimSpace(string(c)), headTail(log.String(), 3500, 2500))
			}
			var out Out
			if jerr := json.Unmarshal(ob, &out); jerr != nil {
				return nil, "", jerr
			}
			os.Remove(job.Out)
			os.Remove(jobPath)
			os.Remove(job.Crumb)
			return &out, "", nil
		case <-tick.C:
			c, _ := os.ReadFile(job.Crumb)
			cs := strings.TrimSpace(string(c))
			if cs != lastCrumb {
				lastCrumb, lastChange = cs, time.Now()
			}
			if (stuckAfter > 0 && time.Since(lastChange) > stuckAfter) || (hardLimit > 0 && time.Since(start) > hardLimit) {
				syscall.Kill(-cmd.Process.Pid, syscall.SIGKILL)
				<-done
				if cs == "-2" {
					// all cases were done and their results written; only the
					// rendering of sample cases for the evidence file did not finish
					if ob, rerr := os.ReadFile(job.Out); rerr == nil {
						var out Out
						if json.Unmarshal(ob, &out) == nil {
							fmt.Fprintf(os.Stderr, "falcosim: worker %d finished its cases but not the rendering of samples; results kept, samples dropped\n", job.Worker)
							os.Remove(job.Out)
							os.Remove(jobPath)
							os.Remove(job.Crumb)
							return &out, "", nil
						}
					}
				}
				return nil, cs, fmt.Errorf("stuck")
			}
		}
	}
}

func headTail(s string, h, t int) string {
	if len(s) <= h+t {
		return s
	}
	return s[:h] + "\n…\n" + s[len(s)-t:]
}

func tail(s string, n int) string {
	if len(s) > n {
		return "…" + s[len(s)-n:]
	}
	return s
}

func keyHash(k string) string {
	h := sha1.Sum([]byte(k))
	return fmt.Sprintf("%x", h[:5])
}

type mergeState struct {
	evals, enumTotal, enumDone, sampledPlan, sampledDone int
	distinct                                             map[uint64]struct{}
	faults, probes                                       map[string]int
	simSeconds                                           float64
	found                                                map[string]*Found
	samples                                              []any
}

func newMerge() *mergeState {
	return &mergeState{distinct: map[uint64]struct{}{}, faults: map[string]int{}, probes: map[string]int{}, found: map[string]*Found{}}
}

func (m *mergeState) add(o *Out) {
	m.evals += o.Evaluations
	m.enumDone += o.EnumDone
	m.sampledDone += o.SampledDone
	m.enumTotal, m.sampledPlan = o.EnumTotal, o.SampledPlan
	for _, h := range o.Distinct {
		m.distinct[h] = struct{}{}
	}
	for k, v := range o.Faults {
		m.faults[k] += v
	}
	for k, v := range o.Probes {
		m.probes[k] += v
	}
	m.simSeconds += o.SimSeconds
	for i := range o.Found {
		f := o.Found[i]
		if ex, ok := m.found[f.Violation.Key]; ok {
			ex.Count += f.Count
			if len(f.Tape) < len(ex.Tape) {
				c := ex.Count
				*ex = f
				ex.Count = c
			}
			continue
		}
		m.found[f.Violation.Key] = &f
	}
	m.samples = append(m.samples, o.Samples...)
}

func runCheck(id, tier string) int {
	p, ok := props[id]
	if !ok {
		fmt.Fprintf(os.Stderr, "falcosim: property %s is not claimed by any check (see MANIFEST.json not_applicable)\n", id)
		return 2
	}
	start := time.Now()
	seed := seedFromEnv()
	fmt.Printf("falcosim: check %s tier=%s seed=%d engine=%s\n", id, tier, seed, p.Engine)
	before := repoStatus()
	scratch, cleanup := scratchDir()
	defer cleanup()

	var code int
	if p.Engine == "fsfault" {
		code = runFsfault(id, tier, seed, scratch, start)
	} else {
		code = runSimCheck(id, tier, seed, p, scratch, start)
	}
	if after := repoStatus(); after != before {
		fmt.Fprintf(os.Stderr, "falcosim: /repo working tree changed during the check:\nbefore:\n%safter:\n%s", before, after)
		return 2
	}
	return code
}

func budgets(tier string) (caseBudget time.Duration, stuck time.Duration) {
	if tier == "thorough" {
		caseBudget, stuck = 25*time.Minute, 300*time.Second
	} else {
		caseBudget, stuck = 90*time.Second, 60*time.Second
	}
	if s := os.Getenv("FALCOSIM_BUDGET_S"); s != "" {
		if v, err := strconv.Atoi(s); err == nil {
			caseBudget = time.Duration(v) * time.Second
		}
	}
	return
}

func runSimCheck(id, tier string, seed uint64, p propInfo, scratch string, start time.Time) int {
	bi, err := buildWorker(scratch, p.Engine, p.Overlay, false)
	if err != nil {
		fmt.Fprintln(os.Stderr, "falcosim: build failed (machinery or tree does not compile under the overlay):\n", err)
		return 2
	}
	fmt.Printf("falcosim: worker built from %s working tree in %.1fs\n", repoDir, bi.Seconds)
	workers := envInt("FALCOSIM_WORKERS", runtime.NumCPU())
	caseBudget, stuck := budgets(tier)
	deadline := time.Now().Add(caseBudget).UnixMilli()

	m := newMerge()
	type wres struct {
		outs  []*Out
		hangs []ReplayFile
		err   error
		infra string
		w     int
	}
	results := make([]wres, workers)
	var wg sync.WaitGroup
	for w := 0; w < workers; w++ {
		wg.Add(1)
		go func(w int) {
			defer wg.Done()
			r := wres{w: w}
			defer func() { results[w] = r }()
			start := 0
			// A case that kills its worker (unrecoverable Go fatal, panic on a
			// goroutine falco started, hang) is attributed through the breadcrumb,
			// confirmed alone, recorded, and the worker is restarted after it.
			transient := 0
			for losses := 0; losses <= 12; {
				job := Job{Mode: "range", Property: id, Tier: tier, Seed: seed, Worker: w, Workers: workers, Deadline: deadline, MaxCases: envInt("FALCOSIM_MAXCASES", 0), StartCase: start, Recycle: envInt("FALCOSIM_RECYCLE", 20000)}
				o, crumb, err := runWorker(bi.Bin, job, scratch, stuck, caseBudget+10*time.Minute, nil)
				if err == nil {
					r.outs = append(r.outs, o)
					if o.ResumeAt > 0 && o.Error == "" {
						start = o.ResumeAt // the process handled its share; a fresh one continues
						continue
					}
					return
				}
				losses++
				c, perr := strconv.Atoi(strings.TrimSpace(crumb))
				if perr != nil || c < 0 {
					r.err = fmt.Errorf("worker %d failed outside any case: %v", w, err)
					return
				}
				fmt.Printf("falcosim: worker %d lost at case %d (%v); re-running that case alone\n", w, c, firstLine(err.Error()))
				single := Job{Mode: "range", Property: id, Tier: tier, Seed: seed, Worker: c, Workers: 1 << 30}
				_, _, err2 := runWorker(bi.Bin, single, scratch, 10*stuck, 10*stuck, nil)
				if err2 == nil {
					// It completed alone: the loss was infrastructure (memory, a starved
					// machine). The worker resumes from that case; a worker that is lost
					// like this three times ends the run as machinery trouble.
					transient++
					if transient >= 3 {
						r.infra = fmt.Sprintf("case %d completes alone; worker %d was lost %d times on cases that complete alone: infrastructure trouble", c, w, transient)
						return
					}
					fmt.Printf("falcosim: case %d completes alone; worker %d resumes from it (transient loss %d)\n", c, w, transient)
					start = c
					continue
				}
				kind := "hang"
				detail := fmt.Sprintf("case %d made no progress for %v when run alone (and killed its worker in the batch)", c, 10*stuck)
				key := fmt.Sprintf("%s/hang:case", id)
				if !strings.Contains(err2.Error(), "stuck") {
					kind = "fatal"
					detail = fmt.Sprintf("case %d kills the process with an unrecoverable Go runtime error:\n%s", c, headTail(err2.Error(), 3500, 1500))
					key = fmt.Sprintf("%s/fatal:%s", id, fatalClass(err2.Error()))
				}
				r.hangs = append(r.hangs, ReplayFile{Property: id, Engine: p.Engine, Tier: tier, Seed: seed, Case: uint64(c), Hang: true,
					Violation: Violation{Oracle: id + "/" + kind, Key: key, Detail: detail}})
				start = c + 1
			}
		}(w)
	}
	wg.Wait()

	var hangs []ReplayFile
	for _, r := range results {
		if r.err != nil {
			fmt.Fprintf(os.Stderr, "falcosim: %v\n", r.err)
			return 2
		}
		if r.infra != "" {
			fmt.Fprintf(os.Stderr, "falcosim: %s\n", r.infra)
			return 2
		}
		hangs = append(hangs, r.hangs...)
		for _, o := range r.outs {
			if o.Error != "" {
				fmt.Fprintf(os.Stderr, "falcosim: harness error in worker %d: %s\n", r.w, o.Error)
				return 2
			}
			m.add(o)
		}
	}

	// Minimise, confirm and write out every distinct violation.
	kf := loadFindings()
	var reported []string
	var knownHit = map[string]int{}
	keys := make([]string, 0, len(m.found))
	for k := range m.found {
		keys = append(keys, k)
	}
	sort.Strings(keys)
	newCount := 0
	unconfirmed := 0
	for _, k := range keys {
		f := m.found[k]
		if e := kf.known(id, k); e != nil {
			knownHit[k] += f.Count
			continue
		}
		newCount++
		if newCount > 6 {
			fmt.Printf("falcosim: further violation key not minimised: %s (x%d)\n", k, f.Count)
			continue
		}
		rf := ReplayFile{Property: id, Engine: p.Engine, Tier: tier, Seed: seed, Case: f.Case, Tape: f.Tape, Violation: f.Violation, Original: len(f.Tape)}
		// shrink
		sj := Job{Mode: "shrink", Property: id, Tier: tier, Seed: seed, Tape: f.Tape, Key: k, ShrinkN: envInt("FALCOSIM_SHRINK", 400)}
		so, _, serr := runWorker(bi.Bin, sj, scratch, 5*time.Minute, 20*time.Minute, nil)
		if serr == nil && so.Shrunk != nil {
			rf.Tape, rf.Violation, rf.Rendering, rf.LogHash, rf.Events, rf.Shrinks = so.Shrunk.Tape, so.Shrunk.Violation, so.Shrunk.Rendering, so.Shrunk.LogHash, so.Shrunk.Events, so.ShrinkRuns
		} else if serr == nil && so.Error != "" {
			fmt.Fprintf(os.Stderr, "falcosim: shrink: %s\n", so.Error)
		}
		// confirm in a fresh process
		rj := Job{Mode: "replay", Property: id, Tier: tier, Seed: seed, Tape: rf.Tape}
		ro, _, rerr := runWorker(bi.Bin, rj, scratch, 5*time.Minute, 10*time.Minute, nil)
		confirmed := false
		if rerr == nil {
			for _, x := range ro.Found {
				if x.Violation.Key == k {
					confirmed = true
					if rf.LogHash == "" {
						rf.LogHash, rf.Rendering, rf.Events, rf.Violation = x.LogHash, x.Rendering, x.Events, x.Violation
					} else if rf.LogHash != x.LogHash {
						fmt.Fprintf(os.Stderr, "falcosim: replay of %s is not deterministic (event-log hash %s vs %s)\n", k, rf.LogHash, x.LogHash)
						return 2
					}
				}
			}
		}
		if !confirmed {
			// A violation that depends on what earlier cases left behind in the
			// process (e.g. sync.Pool contents) does not replay from its tape
			// alone. It is never reported as a VIOLATION; if nothing else
			// reproduces either, the run ends as machinery trouble (exit 2).
			fmt.Fprintf(os.Stderr, "falcosim: violation %s (x%d) did not reproduce on replay in a fresh process — not reported\n", k, f.Count)
			unconfirmed++
			continue
		}
		rf.RepoHead, rf.RepoDirty = repoHead(), repoStatus() != ""
		path := writeReplay(rf)
		reported = append(reported, fmt.Sprintf("VIOLATION property=%s replay=%s", id, path))
		fmt.Printf("falcosim: %s x%d — %s\n", k, f.Count, firstLine(rf.Violation.Detail))
	}
	seenHang := map[string]bool{}
	for _, h := range hangs {
		if e := kf.known(id, h.Violation.Key); e != nil {
			knownHit[h.Violation.Key]++
			continue
		}
		if seenHang[h.Violation.Key] {
			continue
		}
		seenHang[h.Violation.Key] = true
		h.RepoHead, h.RepoDirty = repoHead(), repoStatus() != ""
		path := writeReplay(h)
		reported = append(reported, fmt.Sprintf("VIOLATION property=%s replay=%s", id, path))
		fmt.Printf("falcosim: %s — %s\n", h.Violation.Key, firstLine(h.Violation.Detail))
	}

	// C08, environment phase: the predefined-variables workload on a host that
	// has no network address at all (a sandbox, a container without network).
	var netnsCov map[string]any
	if id == "C08" {
		netnsCov = map[string]any{"available": netnsAvailable()}
		if netnsCov["available"].(bool) {
			setPhase("netns")
			n := 4000
			if tier == "thorough" {
				n = 60000
			}
			job := Job{Mode: "range", Property: id, Tier: tier, Seed: seed, Worker: 0, Workers: 1, MaxCases: n}
			o, _, err := runWorker(bi.Bin, job, scratch, stuck, caseBudget, nil)
			if err != nil {
				setPhase("")
				fmt.Fprintf(os.Stderr, "falcosim: the no-network-address phase failed: %v\n", firstLine(err.Error()))
				if len(reported) == 0 {
					return 2
				}
				// Trouble in this phase must not hide what the main phase has already
				// found, confirmed and written out (a change that kills workers kills
				// them here too): report that, and say that this phase is incomplete.
				netnsCov["incomplete"] = firstLine(err.Error())
				o = &Out{}
			}
			netnsCov["cases"] = o.Evaluations
			for _, f := range o.Found {
				k := "netns:" + f.Violation.Key
				if kf.known(id, f.Violation.Key) != nil {
					knownHit[f.Violation.Key] += f.Count
					continue
				}
				rj := Job{Mode: "replay", Property: id, Tier: tier, Seed: seed, Tape: f.Tape}
				ro, _, rerr := runWorker(bi.Bin, rj, scratch, 5*time.Minute, 10*time.Minute, nil)
				confirmed := false
				if rerr == nil {
					for _, x := range ro.Found {
						if x.Violation.Key == f.Violation.Key {
							confirmed = true
						}
					}
				}
				if !confirmed {
					fmt.Fprintf(os.Stderr, "falcosim: violation %s of the no-network-address phase did not reproduce — not reported\n", k)
					unconfirmed++
					continue
				}
				v := f.Violation
				v.Detail = "(worker run in a network namespace without any address: `unshare -n`)\n" + v.Detail
				rf := ReplayFile{Property: id, Engine: p.Engine, Tier: tier, Seed: seed, Case: f.Case, Tape: f.Tape, Violation: v, Original: len(f.Tape), Phase: "netns"}
				rf.RepoHead, rf.RepoDirty = repoHead(), repoStatus() != ""
				path := writeReplay(rf)
				reported = append(reported, fmt.Sprintf("VIOLATION property=%s replay=%s", id, path))
				fmt.Printf("falcosim: %s x%d — %s\n", k, f.Count, firstLine(v.Detail))
				keys = append(keys, k)
			}
			setPhase("")
		}
	}
	var raceCov map[string]any
	if id == "C18" {
		var raceReported []string
		var code int
		raceCov, raceReported, code = runRacePhase(id, tier, seed, scratch, kf, knownHit)
		if code == 2 {
			if len(reported) == 0 {
				return 2
			}
			// The simulated phase has already produced confirmed, replayable
			// violations (e.g. a deadlock, which also hangs the real goroutines
			// of race mode): they stand; race mode contributes nothing this time.
			fmt.Fprintln(os.Stderr, "falcosim: race mode did not complete; the violations of the simulated phase are reported without it")
			raceCov = map[string]any{"completed": false}
		}
		reported = append(reported, raceReported...)
	}
	wall := time.Since(start).Seconds()
	cov := map[string]any{
		"evaluations":         m.evals,
		"distinct_nontrivial": len(m.distinct),
		"rule":                p.Rule,
		"samples":             m.samples,
		"exhaustive_subspace": map[string]any{"size": m.enumTotal, "done": m.enumDone, "complete": m.enumDone == m.enumTotal && m.enumTotal > 0},
		"sampled_cases":       map[string]any{"planned": m.sampledPlan, "done": m.sampledDone},
		"runs_per_hour":       int(float64(m.evals) / wall * 3600),
		"seeds_per_hour":      int(float64(m.evals) / wall * 3600), // every case has its own tape seed derived from (VERIF_SEED, property, case number)
		"simulated_seconds":   m.simSeconds,
		"faults_fired":        m.faults,
		"probes":              m.probes,
		"workers":             workers,
		"components":          components(id),
		"rewrite_log":         bi.RewriteLog,
		"known_findings_hit":  knownHit,
		"violation_keys":      keys,
		"build_seconds":       bi.Seconds,
		"repo_head":           repoHead(),
		"repo_dirty":          repoStatus() != "",
	}
	if netnsCov != nil {
		cov["no_network_address_phase"] = netnsCov
	}
	if len(m.samples) == 0 {
		cov["samples"] = []any{"no non-trivial sampled case was rendered in this run"}
	}
	if raceCov != nil {
		cov["race_mode"] = raceCov
	}
	writeEvidence(id, tier, seed, p.Level, cov, wall, len(reported))
	for _, e := range kf.forProperty(id) {
		if e.Status != "known" {
			continue
		}
		fmt.Printf("KNOWN-FINDING: property=%s key=%s %s (observed %d times in this run)\n", id, e.Key, e.What, knownHit[e.Key])
	}
	fmt.Printf("falcosim: %s %s: %d cases (%d enumerated of %d, %d sampled of %d planned), %d distinct non-trivial, %.0f simulated s, %.1fs wall\n",
		id, tier, m.evals, m.enumDone, m.enumTotal, m.sampledDone, m.sampledPlan, len(m.distinct), m.simSeconds, wall)
	if zero := zeroProbes(id, tier, m.probes); len(zero) > 0 {
		fmt.Printf("falcosim: warning: probes at zero: %s\n", strings.Join(zero, ", "))
	}
	if len(reported) > 0 {
		for _, l := range reported {
			fmt.Println(l)
		}
		return 1
	}
	if unconfirmed > 0 {
		fmt.Fprintf(os.Stderr, "falcosim: %d violation keys were observed but none reproduced from its tape: machinery trouble\n", unconfirmed)
		return 2
	}
	return 0
}

func firstLine(s string) string {
	if i := strings.Index(s, "\n"); i >= 0 {
		return s[:i]
	}
	return s
}

var falcoFrameRe = regexp.MustCompile(`github\.com/ysugimoto/falco/v2/([^\s(]+(?:\([^)]*\))?[^\s(]*)\(`)

// fatalClass: the fatal line plus the innermost falco function on the dying stack.
func fatalClass(log string) string {
	lines := strings.Split(log, "\n")
	for i, l := range lines {
		l = strings.TrimSpace(l)
		if strings.HasPrefix(l, "fatal error:") || strings.HasPrefix(l, "runtime: goroutine stack exceeds") || strings.HasPrefix(l, "panic:") {
			l = regexp.MustCompile(`\d+`).ReplaceAllString(l, "N")
			if len(l) > 70 {
				l = l[:70]
			}
			rest := strings.Join(lines[i:], "\n")
			if m := falcoFrameRe.FindStringSubmatch(rest); m != nil {
				return l + ":" + m[1]
			}
			return l
		}
	}
	return "process-died"
}

func writeReplay(rf ReplayFile) string {
	dir := filepath.Join(verifDir, "replays")
	os.MkdirAll(dir, 0o755)
	path := filepath.Join(dir, fmt.Sprintf("%s-%s.json", rf.Property, keyHash(rf.Violation.Key)))
	b, _ := json.MarshalIndent(rf, "", " ")
	os.WriteFile(path, b, 0o644)
	return path
}

func writeEvidence(id, tier string, seed uint64, level string, cov map[string]any, wall float64, violations int) {
	ev := map[string]any{
		"property_id": id,
		"tier":        tier,
		"seed":        int64(seed),
		"level":       level,
		"coverage":    cov,
		"assumptions": assumptions(id),
		"wall_s":      wall,
		"violations":  violations,
	}
	dir := filepath.Join(verifDir, "evidence")
	if repoDir != "/repo" {
		// a run against a snapshot is never evidence about /repo
		dir = filepath.Join(verifDir, "evidence-snapshot")
	}
	os.MkdirAll(dir, 0o755)
	b, _ := json.MarshalIndent(ev, "", " ")
	tmp := filepath.Join(dir, id+".json.tmp")
	os.WriteFile(tmp, b, 0o644)
	os.Rename(tmp, filepath.Join(dir, id+".json"))
	// the last run of each tier is kept beside it (the file above holds
	// whichever tier ran last)
	os.MkdirAll(filepath.Join(dir, "by-tier"), 0o755)
	os.WriteFile(filepath.Join(dir, "by-tier", id+"-"+tier+".json"), b, 0o644)
}

func runReplay(path string) int {
	b, err := os.ReadFile(path)
	if err != nil {
		fmt.Fprintln(os.Stderr, err)
		return 2
	}
	var rf ReplayFile
	if err := json.Unmarshal(b, &rf); err != nil {
		fmt.Fprintln(os.Stderr, err)
		return 2
	}
	p, ok := props[rf.Property]
	if !ok {
		fmt.Fprintln(os.Stderr, "unknown property in replay file")
		return 2
	}
	scratch, cleanup := scratchDir()
	defer cleanup()
	if p.Engine == "fsfault" {
		return replayFsfault(rf, scratch, path)
	}
	bi, err := buildWorker(scratch, p.Engine, p.Overlay, false)
	if err != nil {
		fmt.Fprintln(os.Stderr, "falcosim: build failed:\n", err)
		return 2
	}
	var o *Out
	setPhase(rf.Phase)
	defer setPhase("")
	if rf.Hang {
		job := Job{Mode: "range", Property: rf.Property, Tier: rf.Tier, Seed: rf.Seed, Worker: int(rf.Case), Workers: 1 << 30}
		_, _, err = runWorker(bi.Bin, job, scratch, 10*time.Minute, 10*time.Minute, nil)
		if err != nil {
			fmt.Printf("reproduced: %s (%s)\nVIOLATION property=%s replay=%s\n", rf.Violation.Key, firstLine(err.Error()), rf.Property, path)
			return 1
		}
		fmt.Println("not reproduced: the case completes")
		return 0
	}
	job := Job{Mode: "replay", Property: rf.Property, Tier: rf.Tier, Seed: rf.Seed, Tape: rf.Tape}
	o, _, err = runWorker(bi.Bin, job, scratch, 10*time.Minute, 20*time.Minute, nil)
	if err != nil {
		fmt.Fprintln(os.Stderr, "falcosim: replay worker failed:", err)
		return 2
	}
	if o.Error != "" {
		fmt.Fprintln(os.Stderr, "falcosim: harness error:", o.Error)
		return 2
	}
	for _, f := range o.Found {
		if f.Violation.Key == rf.Violation.Key {
			same := "same"
			if rf.LogHash != "" && rf.LogHash != f.LogHash {
				same = "DIFFERENT"
			}
			fmt.Printf("reproduced: %s\n%s\nevent-log hash %s (%s as recorded)\n", f.Violation.Key, f.Violation.Detail, f.LogHash, same)
			for _, l := range f.Events {
				fmt.Println("  ", l)
			}
			if f.Rendering != nil {
				rb, _ := json.MarshalIndent(f.Rendering, "", " ")
				fmt.Printf("case as replayed:\n%s\n", rb)
			}
			fmt.Printf("VIOLATION property=%s replay=%s\n", rf.Property, path)
			return 1
		}
	}
	if len(o.Found) > 0 {
		fmt.Printf("a different violation was produced: %s\nVIOLATION property=%s replay=%s\n", o.Found[0].Violation.Key, rf.Property, path)
		return 1
	}
	fmt.Println("not reproduced: the property holds on this tape with the current tree")
	return 0
}

// runDeterminism: ≥30 processes at GOMAXPROCS 1/4/16 run the same (seed, case)
// sample; event-log hashes, signatures and violation keys must agree.
func runDeterminism(id string) int {
	p, ok := props[id]
	if !ok || p.Engine == "fsfault" {
		fmt.Fprintln(os.Stderr, "determinism self-test applies to the in-process engines")
		return 2
	}
	scratch, cleanup := scratchDir()
	defer cleanup()
	bi, err := buildWorker(scratch, p.Engine, p.Overlay, false)
	if err != nil {
		fmt.Fprintln(os.Stderr, err)
		return 2
	}
	n := envInt("FALCOSIM_DET_CASES", 200)
	procs := envInt("FALCOSIM_DET_PROCS", 30)
	seed := seedFromEnv()
	outs := make([][]string, procs)
	errs := make([]error, procs)
	var wg sync.WaitGroup
	sem := make(chan struct{}, runtime.NumCPU())
	for i := 0; i < procs; i++ {
		wg.Add(1)
		go func(i int) {
			defer wg.Done()
			sem <- struct{}{}
			defer func() { <-sem }()
			gmp := []string{"1", "4", "16"}[i%3]
			job := Job{Mode: "determinism", Property: id, Tier: "quick", Seed: seed, From: 0, To: n, Worker: i}
			o, _, err := runWorker(bi.Bin, job, scratch, 5*time.Minute, 30*time.Minute, []string{"FALCOSIM_TESTCPU=" + gmp})
			if err != nil {
				errs[i] = err
				return
			}
			if o.Error != "" {
				errs[i] = fmt.Errorf("%s", o.Error)
				return
			}
			outs[i] = o.LogHashes
		}(i)
	}
	wg.Wait()
	for i, e := range errs {
		if e != nil {
			fmt.Fprintf(os.Stderr, "process %d: %v\n", i, e)
			return 2
		}
	}
	bad := 0
	for i := 1; i < procs; i++ {
		for j := range outs[0] {
			if j >= len(outs[i]) || outs[i][j] != outs[0][j] {
				if bad < 10 {
					fmt.Printf("DIVERGENCE process %d (GOMAXPROCS=%s) case %d: %s vs %s\n", i, []string{"1", "4", "16"}[i%3], j, outs[i][j], outs[0][j])
				}
				bad++
			}
		}
	}
	if bad > 0 {
		fmt.Printf("determinism self-test FAILED for %s: %d divergent (process, case) pairs\n", id, bad)
		return 2
	}
	fmt.Printf("determinism self-test passed for %s: %d cases × %d processes (GOMAXPROCS 1/4/16) identical event-log hashes, signatures and verdicts\n", id, n, procs)
	return 0
}

func runOneCase(id string, n int, tier string) int {
	p, ok := props[id]
	if !ok || p.Engine == "fsfault" {
		return 2
	}
	scratch, cleanup := scratchDir()
	defer cleanup()
	bi, err := buildWorker(scratch, p.Engine, p.Overlay, false)
	if err != nil {
		fmt.Fprintln(os.Stderr, err)
		return 2
	}
	start := time.Now()
	job := Job{Mode: "range", Property: id, Tier: tier, Seed: seedFromEnv(), Worker: n, Workers: 1 << 30}
	o, crumb, err := runWorker(bi.Bin, job, scratch, 10*time.Minute, 10*time.Minute, nil)
	fmt.Printf("case %d: %.2fs wall, crumb=%q err=%v\n", n, time.Since(start).Seconds(), crumb, err)
	if o != nil {
		b, _ := json.MarshalIndent(map[string]any{"found": o.Found, "probes": o.Probes, "faults": o.Faults, "error": o.Error, "samples": o.Samples}, "", " ")
		fmt.Println(string(b))
	}
	return 0
}
