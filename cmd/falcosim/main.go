// falcosim is the driver of the deterministic-simulation checks for
// ysugimoto/falco. It does not link falco: it rebuilds a worker from /repo's
// current working tree for every invocation, fans cases out over worker
// processes, minimises and re-confirms violations, and writes evidence.
//
//	falcosim check <ID> [--tier quick|thorough]
//	falcosim replay <file>
//	falcosim selftest determinism <ID>
//
// Exit codes: 0 property held on everything explored (known findings are
// printed as KNOWN-FINDING lines); 1 with "VIOLATION property=<id>
// replay=<path>"; 2 machinery trouble (build, watchdog, determinism).
package main

import (
	"fmt"
	"os"
	"path/filepath"
	"strconv"
)

// verifDir is the directory holding bin/, harness/, evidence/ … : the parent
// of the directory of this executable (so that a snapshot of /verif run
// elsewhere writes into itself), or $FALCOSIM_HOME.
var verifDir = func() string {
	if d := os.Getenv("FALCOSIM_HOME"); d != "" {
		return d
	}
	if exe, err := os.Executable(); err == nil {
		if r, err := filepath.EvalSymlinks(exe); err == nil {
			exe = r
		}
		return filepath.Dir(filepath.Dir(exe))
	}
	return "/verif"
}()

type propInfo struct {
	Engine  string
	Overlay bool
	Level   string
	Rule    string
}

var props = map[string]propInfo{
	"C01": {Engine: "stream", Overlay: true, Level: "exploration", Rule: "cases are (source, delivery plan, terminal event, corruption) tuples drawn from the tape, plus every truncation offset of the corpus sources in the exhaustive sub-space; a case is non-trivial when the plan is not 'single chunk, clean EOF, no corruption'; distinct = distinct (source id, plan class, corruption class, parse outcome class per entry point)"},
	"C19": {Engine: "stream", Overlay: true, Level: "exploration", Rule: "cases are (statements parsed from a generated or corpus source, delivery plan, fault) tuples drawn from the tape, plus every cut offset of corpus encodings ≤ 2 KiB in the exhaustive sub-space; non-trivial when delivery is not 'all at once, clean EOF' or a fault is injected; distinct = distinct (node-kind set, chunk-plan class, fault class, outcome class)"},
	"C06": {Engine: "world", Overlay: true, Level: "exploration", Rule: "cases are (lifecycle action assignment, request history, clock advances, origin behaviours) drawn from the tape, plus the enumerated product of unconditional actions; non-trivial when at least one subroutine takes a non-default action or the history has ≥ 2 requests; distinct = distinct (model path signature per request, clock class, origin outcome class)"},
	"C08": {Engine: "world", Overlay: true, Level: "exploration", Rule: "cases are (program family, request history, origin fault plan, clock advances, include graph) drawn from the tape; non-trivial when at least one fault fired, a boundary operand was used, or a guard (restart/depth/include budget) was reached; distinct = distinct (workload class, fault kinds fired, terminal classification)"},
	"C11": {Engine: "lintsim", Overlay: true, Level: "exploration", Rule: "cases are (program, include graph, module-store faults, R map-iteration orders, declaration permutation) drawn from the tape; non-trivial when some iterated map has ≥ 2 entries or the program has an include edge; distinct = distinct (program hash, order class)"},
	"C18": {Engine: "sched", Overlay: true, Level: "exploration", Rule: "cases are (N concurrent requests or plugins, schedule = sequence of scheduler releases, origin/plugin latencies and faults) drawn from the tape; non-trivial when at least two operations overlap; distinct = distinct release sequences (hash)"},
	"C20": {Engine: "world", Overlay: true, Level: "exploration", Rule: "cases are (resource set, API completion order/latency/fault plan or stdin delivery plan, map order) drawn from the tape; non-trivial with ≥ 2 concurrent API requests or a non-trivial stdin plan; distinct = distinct (resource-shape class, completion-order hash, fault class)"},
	"C16": {Engine: "fsfault", Level: "fault_enumeration", Rule: "for every input file class the golden syscall trace of `falco fmt -w` is recorded and every file-related syscall × every errno of its set × {error, SIGKILL before, SIGKILL after} is injected, plus RLIMIT_FSIZE limits and permission faults; non-trivial = a fault was actually injected (strace (INJECTED) mark verified); distinct = distinct (input class, syscall, ordinal, fault)"},
}

func usage() {
	fmt.Fprintln(os.Stderr, "usage: falcosim check <ID> [--tier quick|thorough] | replay <file> | selftest determinism <ID>")
	os.Exit(2)
}

func envInt(name string, def int) int {
	if s := os.Getenv(name); s != "" {
		if v, err := strconv.Atoi(s); err == nil {
			return v
		}
	}
	return def
}

func main() {
	if len(os.Args) < 2 {
		usage()
	}
	switch os.Args[1] {
	case "check":
		if len(os.Args) < 3 {
			usage()
		}
		id := os.Args[2]
		tier := os.Getenv("VERIF_TIER")
		for i := 3; i < len(os.Args); i++ {
			if os.Args[i] == "--tier" && i+1 < len(os.Args) {
				tier = os.Args[i+1]
				i++
			}
		}
		if tier != "thorough" {
			tier = "quick"
		}
		os.Exit(runCheck(id, tier))
	case "replay":
		if len(os.Args) < 3 {
			usage()
		}
		os.Exit(runReplay(os.Args[2]))
	case "case":
		// falcosim case <ID> <n> [tier]: run one case number and print what it rendered (debugging aid)
		if len(os.Args) < 4 {
			usage()
		}
		n, _ := strconv.Atoi(os.Args[3])
		tier := "quick"
		if len(os.Args) > 4 {
			tier = os.Args[4]
		}
		os.Exit(runOneCase(os.Args[2], n, tier))
	case "selftest":
		if len(os.Args) < 4 || os.Args[2] != "determinism" {
			usage()
		}
		os.Exit(runDeterminism(os.Args[3]))
	default:
		usage()
	}
}
