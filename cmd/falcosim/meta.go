package main

import "sort"

func components(id string) map[string]any {
	switch id {
	case "C01":
		return map[string]any{
			"real": []string{"lexer (incl. its bufio.Reader)", "parser (ParseVCL, ParseSnippetVCL, ParseVCLOrSnippet)", "token", "ast"},
			"stub": []string{"the byte stream feeding lexer.New (simio.Reader)", "a counting parser.Tokenizer wrapper that forwards to the real lexer", "sync.Pool of the lexer (simsync.Pool: one LIFO stack, emptied before every case)", "who runs next among interleaved users (coroutine scheduler; preemption points inserted by the overlay at the top of every loop body of lexer/ and parser/)"},
		}
	case "C19":
		return map[string]any{
			"real": []string{"ast/codec Encoder and Decoder", "plugin.ReadLinterRequest", "lexer+parser (to obtain statements)"},
			"stub": []string{"the pipe between linter and plugin (simio.Reader; its end is EOF, a cut, an error, or a peer that keeps it open)", "sync.Pool of the codec (simsync.Pool)", "who runs next among interleaved users (coroutine scheduler; preemption points at the top of every loop body of ast/)"},
		}
	case "C06", "C08":
		return map[string]any{
			"real": []string{"interpreter and all sub-packages (ServeHTTP, state machine, cache, rate counters, penalty boxes, variables, builtin functions)", "lexer, parser, linter-free ProcessInit path", "net/http client code above the RoundTripper"},
			"stub": []string{"origin servers (simnet.Origin RoundTripper in http.DefaultTransport)", "clock and timers (testing/synctest bubble)", "module store for include (simfs via resolver.Resolver)"},
		}
	case "C11":
		return map[string]any{
			"real":                            []string{"linter, linter/context, lexer, parser"},
			"real_in_the_directory_tree_mode": []string{"resolver.FileResolver and the kernel's file system (a per-case temporary tree)"},
			"stub":                            []string{"Go map iteration order in linter packages (simmap via source overlay)", "module store (simfs via resolver.Resolver), except in the directory-tree mode where only the Resolve budget (a counting wrapper) is added"},
		}
	case "C18":
		return map[string]any{
			"real": []string{"interpreter.ServeHTTP with its lock, cache, rate counters", "linter.customLint, (*Linter).Error, plugin request decoding, codec"},
			"stub": []string{"sync.Mutex/RWMutex of interpreter and linter packages (cooperative simsync via overlay)", "os/exec in linter (simexec plugin actors)", "origin (simnet)", "clock (synctest)", "the goroutine scheduler's choice of who runs next (one release per quiescence)"},
		}
	case "C20":
		return map[string]any{
			"real": []string{"snippet.Fetch, snippet/remote client+fetcher, snippet/terraform parser+fetcher, snippet templates, EmbedSnippets, parser"},
			"stub": []string{"Fastly API (simnet.FastlyAPI RoundTripper)", "stdin (simio.Reader)", "clock (synctest)", "sync primitives in snippet/remote (simsync)", "the runner's use of the fetcher's cache (LookupCache / Fetch / WriteCache sequence written out in the harness, because cmd/falco is package main); the cache file itself is real, in a per-case XDG_CACHE_HOME"},
		}
	case "C16":
		return map[string]any{
			"real": []string{"the whole falco binary built from the working tree", "the Linux kernel's file system"},
			"stub": []string{"the kernel's answers to chosen syscalls (bin/faultrun, a ptrace supervisor with one global call index), RLIMIT_FSIZE (prlimit), credentials (setpriv)"},
		}
	}
	return nil
}

func assumptions(id string) []string {
	common := []string{
		"sampling: a clean run is evidence, not proof; only the sub-spaces marked exhaustive are complete",
		"the worker is rebuilt from /repo's working tree with go1.26.8; falco's own go.mod targets go1.25",
	}
	switch id {
	case "C01", "C19":
		return append(common, "the stream seam is the io.Reader argument; delivery faults are those any pipe or file may legally show (short reads, zero-length reads, early EOF, errors)")
	case "C16":
		return append(common, "process-kill crash model (no power loss): data written before SIGKILL is what the kernel keeps", "faults are addressed by a global index over the file-related syscalls of the run; that the fault landed on the intended call of the reference run is verified per run (a run whose call order differs is judged as it happened and counted)")
	case "C06", "C08", "C18", "C20":
		return append(common, "time is the synctest fake clock (monotonic); origin/API behaviour is a function of the request and the tape", "source overlay (import swaps and yields) preserves behaviour when no scheduler is installed")
	case "C11":
		return append(common, "map iteration order is owned only at `range` sites over maps in the overlaid packages")
	}
	return common
}

// expectedProbes lists rare-branch probes that must not stay at zero.
var expectedProbes = map[string][]string{
	"C19": {"gen_parsed", "short_reads_delivered", "encoding_over_4096", "decode_error_returned", "open_stream_decoded", "encoding_rechecked_after_later_encodes", "users_interleaved_inside_codec", "corpus_statement_round_trip", "deep_stream_rejected_with_error"},
	"C01": {"parse_tree", "short_reads_delivered", "parse_error_located", "cut_inside_token", "error_value_rechecked_after_later_parses", "users_interleaved_inside_lexer_or_parser", "fixed_source_parsed_before_and_after", "valid_source_with_test_syntax_words_parsed_plain", "plain_parse_repeated_after_custom_parsers", "deep_source_rejected_with_error"},
	"C06": {"hit_branch_taken", "restart_limit_reached", "ratecounter_carried_over", "penaltybox_carried_over", "origin_transfer_broke_off_inside_body"},
	"C08": {"timeout_fired", "call_depth_guard_reached", "restart_limit_reached", "include_missing_module", "runtime_error_reported", "tester_factory_returned", "tester_error_returned"},
	"C11": {"map_with_2plus_keys_iterated", "permutation_checked", "diagnostics_reported", "linted_from_directory_tree", "relinted_after_another_program", "grammar_program_linted"},
	"C18": {"requests_overlapped", "history_linearizable", "plugin_timeout_fired", "model_validation_case", "timed_case"},
	"C20": {"concurrent_api_requests", "fetch_error_reported", "terraform_multi_service_plan", "preempted_inside_rendering_loops", "second_run_after_cache_write", "run_after_refresh"},
}

func zeroProbes(id, tier string, got map[string]int) []string {
	var z []string
	for _, p := range expectedProbes[id] {
		if got[p] == 0 {
			z = append(z, p)
		}
	}
	sort.Strings(z)
	return z
}
