package main

import (
	"fmt"
	"os"
	"path/filepath"
	"regexp"
	"sort"
	"strings"
	"sync"
	"time"
)

var raceFrame = regexp.MustCompile(`github\.com/ysugimoto/falco/v2/([^\s(]+(?:\([^)]*\))?[^\s(]*)\(`)

// parseRaceReport extracts, for each of the two stacks of the first DATA RACE
// report, the innermost falco function.
func parseRaceReport(text string) (key string, excerpt string) {
	i := strings.Index(text, "WARNING: DATA RACE")
	if i < 0 {
		return "", ""
	}
	rep := text[i:]
	if j := strings.Index(rep[1:], "=================="); j > 0 {
		rep = rep[:j+1]
	}
	var funcs []string
	for _, block := range regexp.MustCompile(`(?m)^(?:Read|Write|Previous read|Previous write|Atomic|Previous atomic)[^\n]*\n`).Split(rep, -1)[1:] {
		stack := block
		if k := strings.Index(stack, "\n\n"); k >= 0 {
			stack = stack[:k]
		}
		if m := raceFrame.FindStringSubmatch(stack); m != nil {
			funcs = append(funcs, m[1])
		} else {
			funcs = append(funcs, "?")
		}
		if len(funcs) == 2 {
			break
		}
	}
	sort.Strings(funcs)
	if len(rep) > 3500 {
		rep = rep[:3500]
	}
	return "C18/race:" + strings.Join(funcs, "|"), rep
}

// runRacePhase: the non-replayable half of C18 — real goroutines, the shipped
// code (no overlay), built with -race, GOMAXPROCS 1/4/16.
func runRacePhase(id, tier string, seed uint64, scratch string, kf *findings, knownHit map[string]int) (map[string]any, []string, int) {
	bi, err := buildWorker(scratch, "sched", false, true)
	if err != nil {
		fmt.Fprintln(os.Stderr, "falcosim: race build failed:\n", err)
		return nil, nil, 2
	}
	fmt.Printf("falcosim: race-mode worker (-race, no overlay) built in %.1fs\n", bi.Seconds)
	workers := 9
	caseBudget, stuck := budgets(tier)
	caseBudget /= 3
	deadline := time.Now().Add(caseBudget).UnixMilli()
	type rres struct {
		out    *Out
		err    error
		report string
		gmp    string
	}
	results := make([]rres, workers)
	var wg sync.WaitGroup
	for w := 0; w < workers; w++ {
		wg.Add(1)
		go func(w int) {
			defer wg.Done()
			gmp := []string{"1", "4", "16"}[w%3]
			logBase := filepath.Join(scratch, fmt.Sprintf("race-%d", w))
			job := Job{Mode: "range", Property: id, Tier: tier, Seed: seed, Worker: w, Workers: workers, Deadline: deadline}
			env := []string{"FALCOSIM_RACE=1", "FALCOSIM_TESTCPU=" + gmp, "GORACE=halt_on_error=1 exitcode=66 log_path=" + logBase}
			o, _, err := runWorker(bi.Bin, job, scratch, stuck, caseBudget+5*time.Minute, env)
			r := rres{out: o, err: err, gmp: gmp}
			if m, _ := filepath.Glob(logBase + ".*"); len(m) > 0 {
				b, _ := os.ReadFile(m[0])
				r.report = string(b)
			}
			results[w] = r
		}(w)
	}
	wg.Wait()
	evals, overlapped := 0, 0
	var reported []string
	seen := map[string]bool{}
	reports := 0
	for w, r := range results {
		if r.report != "" {
			key, excerpt := parseRaceReport(r.report)
			if key == "" {
				fmt.Fprintf(os.Stderr, "falcosim: race worker %d wrote an unparseable report\n", w)
				return nil, nil, 2
			}
			reports++
			if seen[key] {
				continue
			}
			seen[key] = true
			if kf.known(id, key) != nil {
				knownHit[key]++
				continue
			}
			rf := ReplayFile{Property: id, Engine: "sched", Tier: tier, Seed: seed,
				Violation: Violation{Oracle: "C18/no-data-race", Key: key, Detail: "the race detector reports a data race (happens-before analysis; not schedule-replayable, re-run the race phase to observe it again):\n" + excerpt},
				Extra:     map[string]any{"race": true, "worker": w, "workers": workers, "gomaxprocs": r.gmp}, RepoHead: repoHead(), RepoDirty: repoStatus() != ""}
			path := writeReplay(rf)
			reported = append(reported, fmt.Sprintf("VIOLATION property=%s replay=%s", id, path))
			fmt.Printf("falcosim: %s (GOMAXPROCS=%s)\n", key, r.gmp)
			continue
		}
		if r.err != nil {
			fmt.Fprintf(os.Stderr, "falcosim: race worker %d failed without a race report: %v\n", w, r.err)
			return nil, nil, 2
		}
		if r.out.Error != "" {
			fmt.Fprintf(os.Stderr, "falcosim: race worker %d harness error: %s\n", w, r.out.Error)
			return nil, nil, 2
		}
		evals += r.out.Evaluations
		overlapped += r.out.Probes["requests_overlapped"]
		for i := range r.out.Found {
			f := r.out.Found[i]
			if seen[f.Violation.Key] {
				continue
			}
			seen[f.Violation.Key] = true
			if kf.known(id, f.Violation.Key) != nil {
				knownHit[f.Violation.Key] += f.Count
				continue
			}
			rf := ReplayFile{Property: id, Engine: "sched", Tier: tier, Seed: seed, Case: f.Case, Tape: f.Tape, Violation: f.Violation,
				Extra: map[string]any{"race": true, "worker": w, "workers": workers, "gomaxprocs": r.gmp}, RepoHead: repoHead(), RepoDirty: repoStatus() != ""}
			rf.Violation.Key = f.Violation.Key
			path := writeReplay(rf)
			reported = append(reported, fmt.Sprintf("VIOLATION property=%s replay=%s", id, path))
			fmt.Printf("falcosim: (race mode) %s — %s\n", f.Violation.Key, firstLine(f.Violation.Detail))
		}
	}
	cov := map[string]any{
		"evaluations":         evals,
		"requests_overlapped": overlapped,
		"data_race_reports":   reports,
		"gomaxprocs":          []int{1, 4, 16},
		"workers":             workers,
		"note":                "real goroutines, shipped code without overlay, -race; happens-before analysis, not schedule-replayable",
	}
	fmt.Printf("falcosim: race mode: %d batches, %d with overlapping requests, %d race reports\n", evals, overlapped, reports)
	return cov, reported, 0
}
