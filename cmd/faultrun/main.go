// faultrun is the syscall-level fault actuator of the fsfault engine (C16): a
// small ptrace supervisor that runs a command, watches every file-related
// system call of every thread, numbers — in one global order — those that touch
// a path under -root, and injects exactly one fault at the chosen index:
//
//	-fault errno:ENOSPC   the call is not executed and fails with that errno
//	-fault kill           the process is SIGKILLed on entry (crash before the call)
//	-fault short:N        a write is cut to N bytes; the next write to the same
//	                      file fails with ENOSPC (torn write / disk fills up)
//	-fault none           record only (golden trace)
//
// Unlike `strace -e inject=…:when=k`, whose counter is per thread (and Go moves
// goroutines between threads), the index here is global and refers to calls on
// paths under the root only, so one (index, fault) pair is one exactly
// repeatable fault point. The trace is written as JSON to -log.
//
// Linux x86_64 only.
package main

import (
	"encoding/json"
	"flag"
	"fmt"
	"os"
	"os/exec"
	"path/filepath"
	"runtime"
	"strconv"
	"strings"
	"syscall"
)

type scKind int

const (
	fdArg0 scKind = iota
	pathArg0
	pathArg0and1
	atArg01
	atArg0123
	fdArg0and2
	fdArg0and1
)

type scInfo struct {
	name string
	kind scKind
}

var table = map[uint64]scInfo{
	0: {"read", fdArg0}, 1: {"write", fdArg0}, 2: {"open", pathArg0}, 3: {"close", fdArg0},
	4: {"stat", pathArg0}, 5: {"fstat", fdArg0}, 6: {"lstat", pathArg0},
	17: {"pread64", fdArg0}, 18: {"pwrite64", fdArg0}, 19: {"readv", fdArg0}, 20: {"writev", fdArg0},
	40: {"sendfile", fdArg0and1}, 74: {"fsync", fdArg0}, 75: {"fdatasync", fdArg0},
	76: {"truncate", pathArg0}, 77: {"ftruncate", fdArg0}, 82: {"rename", pathArg0and1}, 83: {"mkdir", pathArg0},
	85: {"creat", pathArg0}, 86: {"link", pathArg0and1}, 87: {"unlink", pathArg0}, 88: {"symlink", pathArg0and1},
	89: {"readlink", pathArg0}, 90: {"chmod", pathArg0}, 91: {"fchmod", fdArg0}, 92: {"chown", pathArg0},
	93: {"fchown", fdArg0}, 257: {"openat", atArg01}, 262: {"newfstatat", atArg01},
	263: {"unlinkat", atArg01}, 264: {"renameat", atArg0123}, 265: {"linkat", atArg0123}, 267: {"readlinkat", atArg01},
	268: {"fchmodat", atArg01}, 269: {"faccessat", atArg01}, 285: {"fallocate", fdArg0}, 316: {"renameat2", atArg0123},
	326: {"copy_file_range", fdArg0and2}, 332: {"statx", atArg01}, 439: {"faccessat2", atArg01}, 452: {"fchmodat2", atArg01},
}

var errnos = map[string]int{
	"EPERM": 1, "ENOENT": 2, "EIO": 5, "EBADF": 9, "EACCES": 13, "EBUSY": 16, "EEXIST": 17, "EXDEV": 18,
	"ENOTDIR": 20, "EISDIR": 21, "EINVAL": 22, "ENFILE": 23, "EMFILE": 24, "EFBIG": 27, "ENOSPC": 28,
	"EROFS": 30, "EINTR": 4, "EDQUOT": 122, "ENOMEM": 12, "ENAMETOOLONG": 36,
}

type Event struct {
	Index    int      `json:"index"` // global index among relevant calls
	Tid      int      `json:"tid"`
	Name     string   `json:"name"`
	Paths    []string `json:"paths"`
	Args     []uint64 `json:"args"`
	Ret      int64    `json:"ret"`
	Injected string   `json:"injected,omitempty"`
}

type Log struct {
	Events     []Event `json:"events"`
	ExitCode   int     `json:"exit_code"`
	Signaled   bool    `json:"signaled"`
	Signal     int     `json:"signal"`
	InjectedAt int     `json:"injected_at"` // -1: nothing injected
	Error      string  `json:"error,omitempty"`
}

func readString(pid int, addr uint64) string {
	if addr == 0 {
		return ""
	}
	var out []byte
	buf := make([]byte, 256)
	for len(out) < 4096 {
		n, err := syscall.PtracePeekData(pid, uintptr(addr)+uintptr(len(out)), buf)
		if err != nil || n == 0 {
			break
		}
		for i := 0; i < n; i++ {
			if buf[i] == 0 {
				return string(append(out, buf[:i]...))
			}
		}
		out = append(out, buf[:n]...)
	}
	return string(out)
}

func fdPath(tid int, fd int64) string {
	if int32(fd) == -100 { // AT_FDCWD
		p, _ := os.Readlink(fmt.Sprintf("/proc/%d/cwd", tid))
		return p
	}
	p, err := os.Readlink(fmt.Sprintf("/proc/%d/fd/%d", tid, fd))
	if err != nil {
		return ""
	}
	return p
}

func resolveAt(tid int, dirfd int64, path string) string {
	if path == "" {
		return fdPath(tid, dirfd)
	}
	if filepath.IsAbs(path) {
		return filepath.Clean(path)
	}
	return filepath.Join(fdPath(tid, dirfd), path)
}

func main() {
	root := flag.String("root", "", "only calls touching paths under this directory are numbered")
	index := flag.Int("index", -1, "global index of the relevant call to tamper with")
	fault := flag.String("fault", "none", "none | errno:NAME | kill | short:N")
	logPath := flag.String("log", "", "where to write the JSON trace")
	flag.Parse()
	if flag.NArg() == 0 || *root == "" {
		fmt.Fprintln(os.Stderr, "usage: faultrun -root DIR [-index K -fault F] -log FILE -- cmd args…")
		os.Exit(2)
	}
	rootAbs, _ := filepath.Abs(*root)
	if r, err := filepath.EvalSymlinks(rootAbs); err == nil {
		rootAbs = r
	}
	lg := run(rootAbs, *index, *fault, flag.Args())
	b, _ := json.Marshal(lg)
	if *logPath != "" {
		os.WriteFile(*logPath, b, 0o644)
	}
	if lg.Error != "" {
		fmt.Fprintln(os.Stderr, "faultrun:", lg.Error)
		os.Exit(2)
	}
	os.Exit(0)
}

type tstate struct {
	inSyscall bool
	pending   *Event // event being tampered with (set result at exit)
	setRet    int64
	hasSetRet bool
}

func run(root string, index int, fault string, argv []string) *Log {
	lg := &Log{InjectedAt: -1}
	runtime.LockOSThread()
	defer runtime.UnlockOSThread()

	var errnoVal int
	var shortN uint64
	kind := "none"
	switch {
	case fault == "none":
	case fault == "kill":
		kind = "kill"
	case strings.HasPrefix(fault, "errno:"):
		kind = "errno"
		v, ok := errnos[strings.TrimPrefix(fault, "errno:")]
		if !ok {
			lg.Error = "unknown errno " + fault
			return lg
		}
		errnoVal = v
	case strings.HasPrefix(fault, "short:"):
		kind = "short"
		v, err := strconv.ParseUint(strings.TrimPrefix(fault, "short:"), 10, 64)
		if err != nil {
			lg.Error = "bad short count"
			return lg
		}
		shortN = v
	default:
		lg.Error = "unknown fault " + fault
		return lg
	}

	cmd := exec.Command(argv[0], argv[1:]...)
	cmd.Stdin, cmd.Stdout, cmd.Stderr = os.Stdin, os.Stdout, os.Stderr
	cmd.SysProcAttr = &syscall.SysProcAttr{Ptrace: true}
	if err := cmd.Start(); err != nil {
		lg.Error = err.Error()
		return lg
	}
	mainPid := cmd.Process.Pid
	var ws syscall.WaitStatus
	if _, err := syscall.Wait4(mainPid, &ws, 0, nil); err != nil {
		lg.Error = "initial wait: " + err.Error()
		return lg
	}
	const opts = syscall.PTRACE_O_TRACESYSGOOD | syscall.PTRACE_O_TRACECLONE | syscall.PTRACE_O_TRACEFORK |
		syscall.PTRACE_O_TRACEVFORK | syscall.PTRACE_O_TRACEEXEC | 0x100000 /* PTRACE_O_EXITKILL */
	if err := syscall.PtraceSetOptions(mainPid, opts); err != nil {
		lg.Error = "setoptions: " + err.Error()
		return lg
	}
	threads := map[int]*tstate{mainPid: {}}
	syscall.PtraceSyscall(mainPid, 0)

	relevant := 0
	shortFd := int64(-1) // after a short write: fail the next write to this path
	shortPath := ""
	killed := false
	for {
		tid, err := syscall.Wait4(-1, &ws, syscall.WALL, nil)
		if err != nil {
			if err == syscall.EINTR {
				continue
			}
			if err == syscall.ECHILD {
				break
			}
			lg.Error = "wait4: " + err.Error()
			return lg
		}
		st := threads[tid]
		if st == nil {
			st = &tstate{}
			threads[tid] = st
		}
		if ws.Exited() || ws.Signaled() {
			delete(threads, tid)
			if tid == mainPid {
				if ws.Exited() {
					lg.ExitCode = ws.ExitStatus()
				} else {
					lg.Signaled, lg.Signal = true, int(ws.Signal())
					lg.ExitCode = 128 + int(ws.Signal())
				}
				// reap the remaining threads/children
				for {
					if _, err := syscall.Wait4(-1, &ws, syscall.WALL, nil); err != nil {
						break
					}
				}
				break
			}
			continue
		}
		if !ws.Stopped() {
			continue
		}
		sig := ws.StopSignal()
		switch {
		case sig == syscall.SIGTRAP|0x80: // syscall stop
			var regs syscall.PtraceRegs
			if err := syscall.PtraceGetRegs(tid, &regs); err != nil {
				syscall.PtraceSyscall(tid, 0)
				continue
			}
			if !st.inSyscall {
				st.inSyscall = true
				info, ok := table[regs.Orig_rax]
				if ok {
					args := []uint64{regs.Rdi, regs.Rsi, regs.Rdx, regs.R10}
					var paths []string
					switch info.kind {
					case fdArg0:
						paths = []string{fdPath(tid, int64(args[0]))}
					case fdArg0and1:
						paths = []string{fdPath(tid, int64(args[0])), fdPath(tid, int64(args[1]))}
					case fdArg0and2:
						paths = []string{fdPath(tid, int64(args[0])), fdPath(tid, int64(args[2]))}
					case pathArg0:
						paths = []string{resolveAt(tid, -100, readString(tid, args[0]))}
					case pathArg0and1:
						paths = []string{resolveAt(tid, -100, readString(tid, args[0])), resolveAt(tid, -100, readString(tid, args[1]))}
					case atArg01:
						paths = []string{resolveAt(tid, int64(int32(args[0])), readString(tid, args[1]))}
					case atArg0123:
						paths = []string{resolveAt(tid, int64(int32(args[0])), readString(tid, args[1])), resolveAt(tid, int64(int32(args[2])), readString(tid, args[3]))}
					}
					rel := false
					for _, p := range paths {
						if p == root || strings.HasPrefix(p, root+"/") {
							rel = true
						}
					}
					if rel {
						ev := Event{Index: relevant, Tid: tid, Name: info.name, Paths: paths, Args: args[:3]}
						tamper := ""
						if relevant == index {
							switch kind {
							case "kill":
								tamper = "kill"
							case "errno":
								tamper = fault
							case "short":
								if info.name == "write" || info.name == "pwrite64" {
									tamper = fault
								}
							}
						} else if shortPath != "" && (info.name == "write" || info.name == "pwrite64") && paths[0] == shortPath {
							tamper = "errno:ENOSPC(after-short)"
						}
						switch {
						case tamper == "kill":
							ev.Injected = "kill"
							ev.Ret = -1
							lg.InjectedAt = relevant
							lg.Events = append(lg.Events, ev)
							relevant++
							killed = true
							syscall.Kill(mainPid, syscall.SIGKILL)
							syscall.PtraceSyscall(tid, 0)
							continue
						case strings.HasPrefix(tamper, "errno:"):
							e := errnoVal
							if strings.HasSuffix(tamper, "(after-short)") {
								e = errnos["ENOSPC"]
								shortPath = ""
							} else {
								lg.InjectedAt = relevant
							}
							regs.Orig_rax = ^uint64(0) // skip the call
							syscall.PtraceSetRegs(tid, &regs)
							st.hasSetRet, st.setRet = true, -int64(e)
							ev.Injected = tamper
						case strings.HasPrefix(tamper, "short:"):
							if regs.Rdx > shortN {
								regs.Rdx = shortN
								syscall.PtraceSetRegs(tid, &regs)
								shortPath = paths[0]
								_ = shortFd
								ev.Injected = tamper
								lg.InjectedAt = relevant
							}
						}
						st.pending = &ev
						relevant++
					}
				}
			} else {
				st.inSyscall = false
				if st.hasSetRet {
					regs.Rax = uint64(st.setRet)
					syscall.PtraceSetRegs(tid, &regs)
					st.hasSetRet = false
				}
				if st.pending != nil {
					st.pending.Ret = int64(regs.Rax)
					lg.Events = append(lg.Events, *st.pending)
					st.pending = nil
				}
			}
			syscall.PtraceSyscall(tid, 0)
		case sig == syscall.SIGTRAP && (ws.TrapCause() > 0):
			// clone/fork/exec event: the new task is attached automatically
			if ws.TrapCause() == syscall.PTRACE_EVENT_EXEC {
				st.inSyscall = false
			}
			syscall.PtraceSyscall(tid, 0)
		case sig == syscall.SIGSTOP && tid != mainPid && !knownRunning[tid]:
			// initial stop of an auto-attached thread
			knownRunning[tid] = true
			syscall.PtraceSyscall(tid, 0)
		default:
			// deliver the signal
			if sig == syscall.SIGTRAP {
				sig = 0
			}
			syscall.PtraceSyscall(tid, int(sig))
		}
	}
	_ = killed
	// order events by index (exit order may differ from entry order across threads)
	for i := 1; i < len(lg.Events); i++ {
		for j := i; j > 0 && lg.Events[j].Index < lg.Events[j-1].Index; j-- {
			lg.Events[j], lg.Events[j-1] = lg.Events[j-1], lg.Events[j]
		}
	}
	return lg
}

var knownRunning = map[int]bool{}
