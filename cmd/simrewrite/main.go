// simrewrite generates the source overlay that puts falco's nondeterminism
// behind seams the simulator owns — without editing /repo. It reads the
// CURRENT working tree, writes rewritten copies of a handful of files plus
// overlay.json into -out, and prints a JSON log of what it did.
//
// Rewrites (see DESIGN.md §3.6):
//
//	import "sync"      → sync "falcosim/sim/simsync"     interpreter/…, linter/…, snippet/…
//	import "os/exec"   → exec "falcosim/sim/simexec"     linter/…
//	go f(x)            → simhook.Go(func() { f(x) })     linter/…, snippet/…, interpreter/… (none there today)
//	eg.Go(f)           → eg.Go(simhook.WrapErr(f))       snippet/… (errgroup)
//	first statement simhook.Yield("<func>")              fixed list of functions
//	for … { body }     → for … { simhook.Loop(); body }   lexer/…, parser/…, ast/…, snippet/…
//	range m (m a map)  → range simmap.Sorted(m)          linter/…, linter/context, snippet/…  (typed)
package main

import (
	"bytes"
	"encoding/json"
	"flag"
	"fmt"
	"go/ast"
	"go/format"
	"go/parser"
	"go/token"
	"go/types"
	"os"
	"path/filepath"
	"sort"
	"strconv"
	"strings"

	"golang.org/x/tools/go/packages"
)

type logT struct {
	Files       int            `json:"files_rewritten"`
	ImportSwaps map[string]int `json:"import_swaps"`
	Yields      []string       `json:"yields_inserted"`
	GoStmts     int            `json:"go_statements_wrapped"`
	LoopYields  int            `json:"loop_preemption_points"`
	ErrgroupGo  int            `json:"errgroup_go_wrapped"`
	MapRanges   []string       `json:"map_ranges_wrapped"`
	MapsCalls   []string       `json:"maps_calls_wrapped"`
	Skipped     []string       `json:"skipped,omitempty"`
}

// packages whose loop bodies get a preemption point
var loopRoots = map[string]bool{"lexer": true, "parser": true, "ast": true, "snippet": true}

var doneGo = map[*ast.GoStmt]bool{}
var doneEg = map[*ast.CallExpr]bool{}

var yieldFuncs = map[string]map[string]bool{
	"interpreter": {"Interpreter.ProcessSubroutine": true, "Interpreter.ProcessFunctionSubroutine": true, "Interpreter.ProcessInit": true, "Interpreter.sendProcessResponse": true, "Interpreter.restart": true, "Interpreter.ProcessRecv": true},
	"linter":      {"Linter.Error": true},
}

func main() {
	repo := flag.String("repo", "/repo", "falco working tree")
	out := flag.String("out", "", "output directory")
	modfile := flag.String("modfile", "", "modfile for type loading")
	noTyped := flag.Bool("notyped", false, "skip the typed map-range rewrite")
	flag.Parse()
	if *out == "" {
		fmt.Fprintln(os.Stderr, "simrewrite: -out required")
		os.Exit(2)
	}
	ovDir := filepath.Join(*out, "ov")
	os.MkdirAll(ovDir, 0o755)
	lg := &logT{ImportSwaps: map[string]int{}}
	replace := map[string]string{}

	// typed information for map ranges
	mapSites := map[string]map[token.Pos]bool{} // filename → set of RangeStmt.X positions that are maps (by offset)
	mapsCallSites := map[string]map[int]string{}
	if !*noTyped {
		if err := loadTyped(*repo, *modfile, mapSites, mapsCallSites); err != nil {
			fmt.Fprintln(os.Stderr, "simrewrite: type loading failed:", err)
			os.Exit(2)
		}
	}

	roots := []string{"interpreter", "linter", "snippet", "lexer", "parser", "ast"}
	for _, root := range roots {
		filepath.Walk(filepath.Join(*repo, root), func(p string, info os.FileInfo, err error) error {
			if err != nil || info.IsDir() || !strings.HasSuffix(p, ".go") || strings.HasSuffix(p, "_test.go") {
				return nil
			}
			rel, _ := filepath.Rel(*repo, p)
			src, err := os.ReadFile(p)
			if err != nil {
				return nil
			}
			fset := token.NewFileSet()
			f, err := parser.ParseFile(fset, p, src, parser.ParseComments)
			if err != nil {
				lg.Skipped = append(lg.Skipped, rel+": "+err.Error())
				return nil
			}
			changed := false
			needHook, needMap := false, false
			top := strings.SplitN(rel, string(filepath.Separator), 2)[0]

			// import swaps
			for _, im := range f.Imports {
				path, _ := strconv.Unquote(im.Path.Value)
				switch {
				case path == "sync":
					im.Path.Value = strconv.Quote("falcosim/sim/simsync")
					if im.Name == nil {
						im.Name = ast.NewIdent("sync")
					}
					lg.ImportSwaps["sync"]++
					changed = true
				case path == "os/exec" && top == "linter":
					im.Path.Value = strconv.Quote("falcosim/sim/simexec")
					if im.Name == nil {
						im.Name = ast.NewIdent("exec")
					}
					lg.ImportSwaps["os/exec"]++
					changed = true
				}
			}

			// yields
			pkgYields := yieldFuncs[f.Name.Name]
			for _, d := range f.Decls {
				fd, ok := d.(*ast.FuncDecl)
				if !ok || fd.Body == nil || fd.Recv == nil || len(fd.Recv.List) != 1 {
					continue
				}
				recv := fd.Recv.List[0].Type
				if st, ok := recv.(*ast.StarExpr); ok {
					recv = st.X
				}
				rid, ok := recv.(*ast.Ident)
				if !ok || !pkgYields[rid.Name+"."+fd.Name.Name] {
					continue
				}
				call := &ast.ExprStmt{X: &ast.CallExpr{
					Fun:  &ast.SelectorExpr{X: ast.NewIdent("simhook"), Sel: ast.NewIdent("Yield")},
					Args: []ast.Expr{&ast.BasicLit{Kind: token.STRING, Value: strconv.Quote(f.Name.Name + "." + fd.Name.Name)}},
				}}
				fd.Body.List = append([]ast.Stmt{call}, fd.Body.List...)
				lg.Yields = append(lg.Yields, rel+":"+fd.Name.Name)
				needHook, changed = true, true
			}

			// go statements and errgroup Go, map ranges
			if top == "linter" || top == "snippet" || top == "interpreter" {
				rewriteStmtLists(f, func(list []ast.Stmt) []ast.Stmt {
					for i, st := range list {
						switch t := st.(type) {
						case *ast.GoStmt:
							// { simW := simhook.Register(); go func(params) { simW(); body }(args) }
							// Arguments are still evaluated at the go statement; the new
							// goroutine is registered in program order and parked at birth.
							if doneGo[t] {
								continue
							}
							doneGo[t] = true
							fl, ok := t.Call.Fun.(*ast.FuncLit)
							if !ok {
								lg.Skipped = append(lg.Skipped, fmt.Sprintf("%s: go statement without function literal left as is", rel))
								continue
							}
							wname := ast.NewIdent("simW")
							fl.Body.List = append([]ast.Stmt{
								&ast.DeferStmt{Call: &ast.CallExpr{Fun: &ast.SelectorExpr{X: ast.NewIdent("simhook"), Sel: ast.NewIdent("Recover")}}},
								&ast.ExprStmt{X: &ast.CallExpr{Fun: wname}},
							}, fl.Body.List...)
							list[i] = &ast.BlockStmt{List: []ast.Stmt{
								&ast.AssignStmt{Lhs: []ast.Expr{wname}, Tok: token.DEFINE, Rhs: []ast.Expr{&ast.CallExpr{
									Fun: &ast.SelectorExpr{X: ast.NewIdent("simhook"), Sel: ast.NewIdent("Register")}}}},
								t,
								// scheduling point for the spawner right after the spawn:
								// the child may run before the spawner continues
								&ast.ExprStmt{X: &ast.CallExpr{Fun: &ast.SelectorExpr{X: ast.NewIdent("simhook"), Sel: ast.NewIdent("Yield")},
									Args: []ast.Expr{&ast.BasicLit{Kind: token.STRING, Value: strconv.Quote("spawned")}}}},
							}}
							lg.GoStmts++
							needHook, changed = true, true
						case *ast.ExprStmt:
							if c, ok := t.X.(*ast.CallExpr); ok && len(c.Args) == 1 {
								if sel, ok := c.Fun.(*ast.SelectorExpr); ok && sel.Sel.Name == "Go" {
									if id, ok := sel.X.(*ast.Ident); ok && (id.Name == "eg" || id.Name == "g" || id.Name == "group") {
										if doneEg[c] {
											continue
										}
										doneEg[c] = true
										c.Args[0] = &ast.CallExpr{Fun: &ast.SelectorExpr{X: ast.NewIdent("simhook"), Sel: ast.NewIdent("WrapErr")}, Args: []ast.Expr{c.Args[0]}}
										list[i] = &ast.BlockStmt{List: []ast.Stmt{
											t,
											&ast.ExprStmt{X: &ast.CallExpr{Fun: &ast.SelectorExpr{X: ast.NewIdent("simhook"), Sel: ast.NewIdent("Yield")},
												Args: []ast.Expr{&ast.BasicLit{Kind: token.STRING, Value: strconv.Quote("spawned")}}}},
										}}
										lg.ErrgroupGo++
										needHook, changed = true, true
									}
								}
							}
						}
					}
					return list
				})
			}
			// loop preemption points
			if loopRoots[top] {
				ast.Inspect(f, func(n ast.Node) bool {
					var body *ast.BlockStmt
					switch t := n.(type) {
					case *ast.ForStmt:
						body = t.Body
					case *ast.RangeStmt:
						body = t.Body
					}
					if body != nil {
						body.List = append([]ast.Stmt{&ast.ExprStmt{X: &ast.CallExpr{Fun: &ast.SelectorExpr{X: ast.NewIdent("simhook"), Sel: ast.NewIdent("Loop")}}}}, body.List...)
						lg.LoopYields++
						needHook, changed = true, true
					}
					return true
				})
			}
			if sites := mapSites[p]; len(sites) > 0 {
				ast.Inspect(f, func(n ast.Node) bool {
					rs, ok := n.(*ast.RangeStmt)
					if !ok {
						return true
					}
					off := fset.Position(rs.X.Pos()).Offset
					if sites[token.Pos(off)] {
						rs.X = &ast.CallExpr{Fun: &ast.SelectorExpr{X: ast.NewIdent("simmap"), Sel: ast.NewIdent("All")}, Args: []ast.Expr{rs.X}}
						lg.MapRanges = append(lg.MapRanges, fmt.Sprintf("%s:%d", rel, fset.Position(rs.Pos()).Line))
						needMap, changed = true, true
					}
					return true
				})
			}
			if !changed {
				return nil
			}
			if needHook {
				addImport(f, "simhook", "falcosim/sim/simhook")
			}
			if needMap {
				addImport(f, "simmap", "falcosim/sim/simmap")
			}
			var buf bytes.Buffer
			if err := format.Node(&buf, fset, f); err != nil {
				lg.Skipped = append(lg.Skipped, rel+": print: "+err.Error())
				return nil
			}
			dst := filepath.Join(ovDir, strings.ReplaceAll(rel, string(filepath.Separator), "__"))
			if err := os.WriteFile(dst, buf.Bytes(), 0o644); err != nil {
				fmt.Fprintln(os.Stderr, err)
				os.Exit(2)
			}
			replace[p] = dst
			lg.Files++
			return nil
		})
	}
	sort.Strings(lg.Yields)
	sort.Strings(lg.MapRanges)
	ov, _ := json.MarshalIndent(map[string]any{"Replace": replace}, "", " ")
	if err := os.WriteFile(filepath.Join(*out, "overlay.json"), ov, 0o644); err != nil {
		fmt.Fprintln(os.Stderr, err)
		os.Exit(2)
	}
	b, _ := json.Marshal(lg)
	fmt.Println(string(b))
}

func addImport(f *ast.File, name, path string) {
	for _, im := range f.Imports {
		if p, _ := strconv.Unquote(im.Path.Value); p == path {
			return
		}
	}
	spec := &ast.ImportSpec{Name: ast.NewIdent(name), Path: &ast.BasicLit{Kind: token.STRING, Value: strconv.Quote(path)}}
	for _, d := range f.Decls {
		if gd, ok := d.(*ast.GenDecl); ok && gd.Tok == token.IMPORT {
			gd.Specs = append(gd.Specs, spec)
			if !gd.Lparen.IsValid() {
				gd.Lparen = gd.Pos()
				gd.Rparen = gd.End()
			}
			f.Imports = append(f.Imports, spec)
			return
		}
	}
	gd := &ast.GenDecl{Tok: token.IMPORT, Specs: []ast.Spec{spec}}
	f.Decls = append([]ast.Decl{gd}, f.Decls...)
	f.Imports = append(f.Imports, spec)
}

// rewriteStmtLists applies fn to every statement list in the file.
func rewriteStmtLists(f *ast.File, fn func([]ast.Stmt) []ast.Stmt) {
	ast.Inspect(f, func(n ast.Node) bool {
		switch t := n.(type) {
		case *ast.BlockStmt:
			t.List = fn(t.List)
		case *ast.CaseClause:
			t.Body = fn(t.Body)
		case *ast.CommClause:
			t.Body = fn(t.Body)
		}
		return true
	})
}

func loadTyped(repo, modfile string, mapSites map[string]map[token.Pos]bool, mapsCalls map[string]map[int]string) error {
	// go/packages runs the `go` found on this process's PATH
	os.Setenv("PATH", "/opt/veriftools/go1.26.8/bin:"+os.Getenv("PATH"))
	env := append(os.Environ(), "GOFLAGS=-mod=mod", "GOPROXY=off", "GOSUMDB=off", "GOTOOLCHAIN=local",
		"PATH=/opt/veriftools/go1.26.8/bin:"+os.Getenv("PATH"))
	cfg := &packages.Config{
		Mode: packages.NeedName | packages.NeedFiles | packages.NeedSyntax | packages.NeedTypes | packages.NeedTypesInfo | packages.NeedImports | packages.NeedDeps,
		Dir:  repo,
		Env:  env,
	}
	if modfile != "" {
		// type-load with a copy of falco's own go.mod so that /repo/go.mod is never rewritten
		dir := filepath.Dir(modfile)
		for _, f := range []string{"go.mod", "go.sum"} {
			b, err := os.ReadFile(filepath.Join(repo, f))
			if err != nil {
				return err
			}
			name := "falco-types." + strings.TrimPrefix(f, "go.")
			if err := os.WriteFile(filepath.Join(dir, name), b, 0o644); err != nil {
				return err
			}
		}
		cfg.BuildFlags = []string{"-modfile=" + filepath.Join(dir, "falco-types.mod")}
	}
	pkgs, err := packages.Load(cfg, "./linter/...", "./snippet/...")
	if err != nil {
		return err
	}
	for _, p := range pkgs {
		if len(p.Errors) > 0 {
			return fmt.Errorf("package %s: %v", p.PkgPath, p.Errors[0])
		}
		for _, f := range p.Syntax {
			name := p.Fset.Position(f.Pos()).Filename
			if strings.HasSuffix(name, "_test.go") {
				continue
			}
			ast.Inspect(f, func(n ast.Node) bool {
				rs, ok := n.(*ast.RangeStmt)
				if !ok {
					return true
				}
				tv, ok := p.TypesInfo.Types[rs.X]
				if !ok {
					return true
				}
				if _, isMap := tv.Type.Underlying().(*types.Map); isMap {
					if mapSites[name] == nil {
						mapSites[name] = map[token.Pos]bool{}
					}
					mapSites[name][token.Pos(p.Fset.Position(rs.X.Pos()).Offset)] = true
				}
				return true
			})
		}
	}
	return nil
}
