package main

func main() {}
