module falcosim

go 1.26

require (
	github.com/anishathalye/porcupine v1.3.0
	github.com/ysugimoto/falco/v2 v2.0.0-00010101000000-000000000000
	golang.org/x/tools v0.50.0
)

replace github.com/ysugimoto/falco/v2 => /repo

replace go.elara.ws/pcre => github.com/dip-proto/go-pcre v0.0.0-20260204122309-dcbff9cb6240
