#!/bin/bash
# seedverify.sh <out-dir> <demo-file> <dest-dir-in-tree> <go test args...>
# Confirms a seeded change independently: in a fresh scratch worktree of /repo
#  (1) patch applies, project builds and the full suite passes with it,
#  (2) the demonstration FAILS with the patch,
#  (3) the demonstration PASSES without it.
set -u
OUT=$1; DEMO=$2; DEST=$3; shift 3
WT=/var/tmp/seedwt-$$
export GOFLAGS=-mod=mod GOPROXY=off
git -C /repo worktree add -q --detach $WT HEAD || exit 2
trap 'git -C /repo worktree remove --force $WT >/dev/null 2>&1' EXIT
cd $WT
git apply $OUT/patch.diff || { echo "RESULT apply=FAIL"; exit 1; }
suite=PASS; go build ./... >/dev/null 2>&1 || suite=BUILDFAIL
if [ $suite = PASS ]; then go test -vet=off -count=1 ./... > $WT/.suite.log 2>&1 || suite=FAIL; fi
[ $suite = FAIL ] && grep -E "^(FAIL|---)" $WT/.suite.log | head -5
mkdir -p $DEST; cp $OUT/$DEMO $DEST/
with=PASS; timeout 600 go test -vet=off -count=1 "$@" > $WT/.with.log 2>&1 || with=FAIL
git apply -R $OUT/patch.diff
without=PASS; timeout 600 go test -vet=off -count=1 "$@" > $WT/.without.log 2>&1 || without=FAIL
[ $without = FAIL ] && tail -5 $WT/.without.log
echo "RESULT suite_with_patch=$suite demo_with_patch=$with demo_without_patch=$without"
