#!/bin/bash
# seedrun.sh <patch.diff> <tier> <check ids...>: apply a seeded change to /repo, run checks, undo it.
set -u
P=$1; TIER=$2; shift 2
cd /repo && [ -z "$(git status --porcelain)" ] || { echo "/repo not clean"; exit 2; }
git apply $P || { echo "patch does not apply"; exit 2; }
trap 'git -C /repo checkout -- . ; git -C /repo clean -fdq' EXIT
cd ${VERIF_HOME:-/verif}
for id in "$@"; do
  out=$(bin/falcosim check $id --tier $TIER 2>&1)
  code=$?
  echo "CHECK $id tier=$TIER exit=$code"
  echo "$out" | grep -E "^falcosim: (netns:)?C[0-9]+/|^VIOLATION|KNOWN|race mode|quick:|thorough:" | cut -c1-260 | head -12
done
